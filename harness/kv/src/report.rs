//! Evidence, violations, replay files, known findings.
#![allow(dead_code)]

use serde_json::{json, Map, Value};
use std::collections::{BTreeMap, HashSet};
use std::sync::atomic::{AtomicU64, Ordering};
use std::sync::Mutex;
use std::time::Instant;

#[derive(Clone, Copy, PartialEq, Eq, Debug)]
pub enum Tier {
    Quick,
    Thorough,
}

impl Tier {
    pub fn name(self) -> &'static str {
        match self {
            Tier::Quick => "quick",
            Tier::Thorough => "thorough",
        }
    }
    pub fn pick<T>(self, q: T, t: T) -> T {
        match self {
            Tier::Quick => q,
            Tier::Thorough => t,
        }
    }
}

pub const VERIF_DIR: &str = "/verif";
const MAX_VIOLATION_LINES: usize = 12;
const SHARDS: usize = 64;

pub struct Report {
    pub id: String,
    pub tier: Tier,
    pub seed: u64,
    pub level: String,
    start: Instant,
    pub evaluations: AtomicU64,
    /// while set, eval / nontrivial / add_distinct count nothing (a region whose oracle is switched off must not be reported as coverage)
    pub muted: std::sync::atomic::AtomicBool,
    distinct: Vec<Mutex<HashSet<u64>>>,
    distinct_extra: AtomicU64,
    pub states: AtomicU64,
    pub transitions: AtomicU64,
    pub traces_validated: AtomicU64,
    samples: Mutex<Vec<Value>>,
    violations: Mutex<BTreeMap<String, (Value, String, u64)>>,
    known_hits: Mutex<BTreeMap<String, (String, u64)>>,
    known_file: Vec<(String, String, String)>, // (property, case id, text)
    extra: Mutex<Map<String, Value>>,
    assumptions: Mutex<Vec<String>>,
    caps: Mutex<Vec<String>>,
    rule: Mutex<String>,
    exhaustive: Mutex<Option<bool>>,
    pub replaying: bool,
}

fn fnv(s: &[u8]) -> u64 {
    let mut h: u64 = 0xcbf29ce484222325;
    for b in s {
        h ^= *b as u64;
        h = h.wrapping_mul(0x100000001b3);
    }
    h
}

impl Report {
    pub fn new(id: &str, tier: Tier, seed: u64, level: &str) -> Report {
        let mut known_file = vec![];
        if let Ok(txt) = std::fs::read_to_string(format!("{}/KNOWN_FINDINGS.txt", VERIF_DIR)) {
            for line in txt.lines() {
                let line = line.trim();
                if let Some(rest) = line.strip_prefix("known:") {
                    let mut prop = String::new();
                    let mut case = String::new();
                    let mut text = vec![];
                    for tok in rest.split_whitespace() {
                        if let Some(p) = tok.strip_prefix("property=") {
                            prop = p.to_string();
                        } else if let Some(c) = tok.strip_prefix("case=") {
                            case = c.to_string();
                        } else {
                            text.push(tok);
                        }
                    }
                    if !prop.is_empty() && !case.is_empty() {
                        known_file.push((prop, case, text.join(" ")));
                    }
                }
            }
        }
        Report {
            id: id.to_string(),
            tier,
            seed,
            level: level.to_string(),
            start: Instant::now(),
            evaluations: AtomicU64::new(0),
            muted: std::sync::atomic::AtomicBool::new(false),
            distinct: (0..SHARDS).map(|_| Mutex::new(HashSet::new())).collect(),
            distinct_extra: AtomicU64::new(0),
            states: AtomicU64::new(0),
            transitions: AtomicU64::new(0),
            traces_validated: AtomicU64::new(0),
            samples: Mutex::new(vec![]),
            violations: Mutex::new(BTreeMap::new()),
            known_hits: Mutex::new(BTreeMap::new()),
            known_file,
            extra: Mutex::new(Map::new()),
            assumptions: Mutex::new(vec![]),
            caps: Mutex::new(vec![]),
            rule: Mutex::new(String::new()),
            exhaustive: Mutex::new(None),
            replaying: false,
        }
    }

    pub fn elapsed(&self) -> f64 {
        self.start.elapsed().as_secs_f64()
    }

    pub fn mute(&self, on: bool) {
        self.muted.store(on, Ordering::SeqCst);
    }
    fn is_muted(&self) -> bool {
        self.muted.load(Ordering::Relaxed)
    }
    pub fn eval(&self, n: u64) {
        if self.is_muted() {
            return;
        }
        self.evaluations.fetch_add(n, Ordering::Relaxed);
    }

    /// Count a distinct non-trivial case, identified by `key`.
    pub fn nontrivial(&self, key: &[u8]) {
        if self.is_muted() {
            return;
        }
        let h = fnv(key);
        self.distinct[(h as usize) % SHARDS].lock().unwrap().insert(h);
    }
    pub fn nontrivial_h(&self, h: u64) {
        self.distinct[(h as usize) % SHARDS].lock().unwrap().insert(h);
    }

    pub fn distinct_count(&self) -> u64 {
        self.distinct.iter().map(|s| s.lock().unwrap().len() as u64).sum::<u64>() + self.distinct_extra.load(Ordering::Relaxed)
    }
    /// add cases whose distinctness is guaranteed by construction (e.g. unique states of a checker)
    pub fn add_distinct(&self, n: u64) {
        if self.is_muted() {
            return;
        }
        self.distinct_extra.fetch_add(n, Ordering::Relaxed);
    }

    pub fn sample(&self, v: Value) {
        let mut s = self.samples.lock().unwrap();
        if s.len() < 12 {
            s.push(v);
        }
    }
    /// keep a sample only with probability ~ 1/every (deterministic on counter)
    pub fn sample_some(&self, counter: u64, every: u64, v: impl FnOnce() -> Value) {
        if counter % every == 0 {
            let mut s = self.samples.lock().unwrap();
            if s.len() < 12 {
                s.push(v());
            }
        }
    }

    /// Append to the enumeration rule (parts added after the first registration of a check).
    pub fn rule_add(&self, more: &str) {
        let mut r = self.rule.lock().unwrap();
        r.push_str(" PLUS: ");
        r.push_str(more);
    }

    pub fn set_rule(&self, r: &str) {
        *self.rule.lock().unwrap() = r.to_string();
    }
    pub fn assume(&self, a: &str) {
        self.assumptions.lock().unwrap().push(a.to_string());
    }
    pub fn cap(&self, c: &str) {
        self.caps.lock().unwrap().push(c.to_string());
        *self.exhaustive.lock().unwrap() = Some(false);
    }
    pub fn set_exhaustive(&self, e: bool) {
        let mut x = self.exhaustive.lock().unwrap();
        if x.is_none() || !e {
            *x = Some(e);
        }
    }
    pub fn extra(&self, k: &str, v: Value) {
        self.extra.lock().unwrap().insert(k.to_string(), v);
    }
    pub fn extra_add(&self, k: &str, n: u64) {
        let mut e = self.extra.lock().unwrap();
        let cur = e.get(k).and_then(|v| v.as_u64()).unwrap_or(0);
        e.insert(k.to_string(), json!(cur + n));
    }

    /// Record a violation. `clause` names the oracle clause (dedup key together with a case
    /// class), `case` is the replayable descriptor.
    pub fn violation(&self, clause: &str, case: Value, what: String) {
        let mut v = self.violations.lock().unwrap();
        match v.get_mut(clause) {
            Some(e) => {
                e.2 += 1;
                // keep the smallest counterexample seen for this clause (bounded effort)
                if e.2 < 5000 && case.to_string().len() + what.len() < e.0.to_string().len() + e.1.len() {
                    e.0 = case;
                    e.1 = what;
                }
            }
            None => {
                v.insert(clause.to_string(), (case, what, 1));
            }
        }
    }

    /// A violation that is downgraded to a KNOWN-FINDING iff KNOWN_FINDINGS.txt lists exactly this case id.
    pub fn known_or_violation(&self, case_id: &str, clause: &str, case: Value, what: String) {
        if let Some((_, _, text)) = self.known_file.iter().find(|(p, c, _)| p == &self.id && c == case_id) {
            let mut k = self.known_hits.lock().unwrap();
            let e = k.entry(case_id.to_string()).or_insert((text.clone(), 0));
            e.1 += 1;
        } else {
            self.violation(&format!("{}:{}", clause, case_id), case, what);
        }
    }

    pub fn violation_count(&self) -> u64 {
        self.violations.lock().unwrap().values().map(|v| v.2).sum()
    }
    pub fn has_violation(&self, clause_prefix: &str) -> bool {
        self.violations.lock().unwrap().keys().any(|k| k.starts_with(clause_prefix))
    }

    /// Write evidence + replay files, print VIOLATION / KNOWN-FINDING lines. Returns exit code.
    pub fn finish(&self) -> i32 {
        let wall = self.elapsed();
        let viol = self.violations.lock().unwrap();
        let known = self.known_hits.lock().unwrap();
        let mut n_lines = 0;
        let mut replay_paths = vec![];
        if !self.replaying {
            let _ = std::fs::create_dir_all(format!("{}/replays", VERIF_DIR));
        }
        for (clause, (case, what, count)) in viol.iter() {
            if n_lines >= MAX_VIOLATION_LINES {
                break;
            }
            let doc = json!({
                "property": self.id, "tier": self.tier.name(), "seed": self.seed,
                "clause": clause, "what": what, "occurrences": count, "case": case,
            });
            let body = serde_json::to_string_pretty(&doc).unwrap();
            let path = format!("{}/replays/{}-{:016x}.json", VERIF_DIR, self.id, fnv(clause.as_bytes()) ^ fnv(case.to_string().as_bytes()));
            if !self.replaying {
                std::fs::write(&path, body).expect("write replay");
            }
            println!("  violated clause: {} ({} occurrence(s)): {}", clause, count, what);
            println!("VIOLATION property={} replay={}", self.id, path);
            replay_paths.push(path);
            n_lines += 1;
        }
        if viol.len() > n_lines {
            println!("  ... {} further violated clause(s) not listed", viol.len() - n_lines);
        }
        for (case_id, (text, count)) in known.iter() {
            println!("KNOWN-FINDING: property={} case={} {} [{} occurrence(s) this run]", self.id, case_id, text, count);
        }
        let nviol: u64 = viol.values().map(|v| v.2).sum();
        let div = crate::env::DIVERGENCES.load(Ordering::Relaxed);
        if div > 0 {
            println!("  NOTE: {} execution(s) did not repeat their call sequence under identical environment answers (the subject keeps state between calls)", div);
            if nviol == 0 && known.is_empty() {
                machinery("replay divergence without any oracle violation: nondeterminism the harness does not own");
            }
        }

        let mut cov = Map::new();
        let evals = self.evaluations.load(Ordering::Relaxed);
        cov.insert("evaluations".into(), json!(evals));
        cov.insert("distinct_nontrivial".into(), json!(self.distinct_count()));
        cov.insert("rule".into(), json!(*self.rule.lock().unwrap()));
        cov.insert("samples".into(), Value::Array(self.samples.lock().unwrap().clone()));
        let st = self.states.load(Ordering::Relaxed);
        if st > 0 || self.level == "model_checking" {
            cov.insert("states".into(), json!(st));
            cov.insert("transitions".into(), json!(self.transitions.load(Ordering::Relaxed)));
            cov.insert("traces_validated_against_impl".into(), json!(self.traces_validated.load(Ordering::Relaxed)));
        }
        if let Some(e) = *self.exhaustive.lock().unwrap() {
            cov.insert("exhaustive".into(), json!(e));
        }
        let caps = self.caps.lock().unwrap();
        if !caps.is_empty() {
            cov.insert("caps_hit".into(), json!(*caps));
        }
        for (k, v) in self.extra.lock().unwrap().iter() {
            cov.insert(k.clone(), v.clone());
        }
        if !known.is_empty() {
            cov.insert(
                "known_findings_hit".into(),
                Value::Object(known.iter().map(|(k, (_, c))| (k.clone(), json!(c))).collect()),
            );
        }
        if !replay_paths.is_empty() {
            cov.insert("replays".into(), json!(replay_paths));
        }
        let ev = json!({
            "property_id": self.id,
            "tier": self.tier.name(),
            "seed": self.seed,
            "level": self.level,
            "coverage": Value::Object(cov),
            "assumptions": *self.assumptions.lock().unwrap(),
            "wall_s": (wall * 1000.0).round() / 1000.0,
            "violations": nviol,
        });
        if !self.replaying {
            let _ = std::fs::create_dir_all(format!("{}/evidence", VERIF_DIR));
            let path = format!("{}/evidence/{}.json", VERIF_DIR, self.id);
            std::fs::write(&path, serde_json::to_string_pretty(&ev).unwrap() + "\n").expect("write evidence");
            println!(
                "{} tier={} evaluations={} distinct_nontrivial={} states={} violations={} known={} wall={:.1}s",
                self.id,
                self.tier.name(),
                evals,
                self.distinct_count(),
                st,
                nviol,
                known.len(),
                wall
            );
        }
        if nviol > 0 {
            1
        } else {
            0
        }
    }
}

/// machinery error: never a verdict
pub fn machinery(msg: &str) -> ! {
    eprintln!("MACHINERY-ERROR: {}", msg);
    std::process::exit(2);
}
