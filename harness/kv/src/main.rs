//! kv — model-checking engines for finfet/kestrel. See /verif/DESIGN.md.
#![allow(clippy::too_many_arguments, clippy::type_complexity)]

#[cfg(feature = "inproc")]
#[allow(dead_code)]
#[path = "/repo/src/cli/src/errors.rs"]
mod errors;
#[cfg(feature = "inproc")]
#[allow(dead_code)]
#[path = "/repo/src/cli/src/keyring.rs"]
mod keyring;
mod kra;

mod env;
mod fx;
mod graph;
mod minted;
mod mon;
mod proc;
mod refspec;
mod report;
mod search;
mod streams;
mod util;

mod chan;
mod c01;
mod c02;
mod c03;
mod c04;
mod c05;
mod c06;
mod c07;
mod c08;
mod c09;
mod c10;
mod c11;
mod c12;
mod c13;
mod c14;
mod c15;
mod c16;
mod c17;
mod c18;
mod c19;
mod c20;

use report::{Report, Tier};

#[global_allocator]
static ALLOC: mon::Mon = mon::Mon;

struct Check {
    id: &'static str,
    level: &'static str,
    run: fn(&'static Report),
    replay: fn(&'static Report, &serde_json::Value),
}

fn checks() -> Vec<Check> {
    vec![
        Check { id: "C01", level: "exploration", run: c01::run, replay: c01::replay },
        Check { id: "C02", level: "exploration", run: c02::run, replay: c02::replay },
        Check { id: "C03", level: "model_checking", run: c03::run, replay: c03::replay },
        Check { id: "C04", level: "model_checking", run: c04::run, replay: c04::replay },
        Check { id: "C05", level: "exploration", run: c05::run, replay: c05::replay },
        Check { id: "C06", level: "exploration", run: c06::run, replay: c06::replay },
        Check { id: "C07", level: "model_checking", run: c07::run, replay: c07::replay },
        Check { id: "C08", level: "exploration", run: c08::run, replay: c08::replay },
        Check { id: "C09", level: "exploration", run: c09::run, replay: c09::replay },
        Check { id: "C10", level: "fault_enumeration", run: c10::run, replay: c10::replay },
        Check { id: "C11", level: "exploration", run: c11::run, replay: c11::replay },
        Check { id: "C12", level: "exploration", run: c12::run, replay: c12::replay },
        Check { id: "C13", level: "fault_enumeration", run: c13::run, replay: c13::replay },
        Check { id: "C14", level: "model_checking", run: c14::run, replay: c14::replay },
        Check { id: "C15", level: "exploration", run: c15::run, replay: c15::replay },
        Check { id: "C16", level: "model_checking", run: c16::run, replay: c16::replay },
        Check { id: "C17", level: "exploration", run: c17::run, replay: c17::replay },
        Check { id: "C18", level: "exploration", run: c18::run, replay: c18::replay },
        Check { id: "C19", level: "exploration", run: c19::run, replay: c19::replay },
        Check { id: "C20", level: "model_checking", run: c20::run, replay: c20::replay },
    ]
}

fn main() {
    let args: Vec<String> = std::env::args().collect();
    if args.len() >= 10 && args[1] == "scrypt-child" {
        c18::child_main(&args[2..]);
    }
    if args.len() >= 4 && args[1] == "ffi-huge" {
        c18::ffi_huge_main(&args[2..]);
    }
    if args.len() >= 4 && args[1] == "c20-envchild" {
        c20::envchild_main(&args[2..]);
    }
    if args.len() >= 4 && args[1] == "rss-child" {
        c11::rss_child_main(&args[2..]);
    }
    if args.len() >= 4 && args[1] == "fork-child" {
        c07::fork_child_main(&args[2..]);
    }
    if args.len() >= 4 && args[1] == "stack-child" {
        c06::stack_child_main(&args[2..]);
    }
    if args.len() >= 4 && args[1] == "ffi-child" {
        c18::ffi_child_main(&args[2..]);
    }
    proc::detach_tty();
    if args.len() < 2 {
        eprintln!("usage: kv <ID>|selftest|list [--tier quick|thorough] [--replay PATH]");
        std::process::exit(2);
    }
    let mut tier = match std::env::var("VERIF_TIER").as_deref() {
        Ok("thorough") => Tier::Thorough,
        _ => Tier::Quick,
    };
    let seed: u64 = std::env::var("VERIF_SEED").ok().and_then(|s| s.trim().parse::<i64>().ok()).map(|v| v as u64).unwrap_or(1);
    let mut replay: Option<String> = None;
    let mut i = 2;
    while i < args.len() {
        match args[i].as_str() {
            "--tier" => {
                i += 1;
                tier = match args.get(i).map(|s| s.as_str()) {
                    Some("thorough") => Tier::Thorough,
                    Some("quick") => Tier::Quick,
                    _ => report::machinery("bad --tier"),
                };
            }
            "--replay" => {
                i += 1;
                replay = args.get(i).cloned();
            }
            a => report::machinery(&format!("unknown argument {}", a)),
        }
        i += 1;
    }
    if let Ok(n) = std::env::var("VERIF_THREADS") {
        if let Ok(n) = n.parse::<usize>() {
            let _ = rayon::ThreadPoolBuilder::new().num_threads(n).build_global();
        }
    }
    match refspec::self_test() {
        Ok(n) => {
            if args[1] == "selftest" {
                println!("REF self-test: {} vectors ok", n);
                return;
            }
        }
        Err(e) => report::machinery(&e),
    }
    if args[1] == "find-case-twin" {
        c12::find_case_twin();
        return;
    }
    if args[1] == "golden-write" {
        c06::golden_write();
        return;
    }
    if args[1] == "ptytest" {
        // machinery self-test of the pseudo-terminal wiring
        let sc = proc::Scratch::new();
        sc.write("plain.bin", b"hello pty");
        for (controlling, stdin_tty, stdout_tty) in [(false, true, false), (true, false, false), (true, true, false), (false, true, true), (true, true, true)] {
            let mut c = proc::Cmd::new(&["password", "encrypt", "plain.bin", "-o", "out.ktl"]);
            c.pty = Some(proc::PtySpec { typed: b"secret\nsecret\n".to_vec(), controlling, stdin_is_tty: stdin_tty, stdout_is_tty: stdout_tty });
            let _ = std::fs::remove_file(sc.path("out.ktl"));
            let out = proc::run(&c, &sc.0);
            println!("controlling={} stdin_tty={} stdout_tty={}: {} tty={:?} outfile={:?}", controlling, stdin_tty, stdout_tty, out.summary(), String::from_utf8_lossy(&out.tty_output), sc.read("out.ktl").map(|f| f.len()));
        }
        return;
    }
    if args[1] == "list" {
        for c in checks() {
            println!("{} {}", c.id, c.level);
        }
        return;
    }
    util::quiet_panics();
    let all = checks();
    let c = match all.iter().find(|c| c.id == args[1]) {
        Some(c) => c,
        None => report::machinery(&format!("unknown property {}", args[1])),
    };
    let mut rep = Report::new(c.id, tier, seed, c.level);
    if let Some(path) = replay {
        let txt = std::fs::read_to_string(&path).unwrap_or_else(|e| report::machinery(&format!("cannot read {}: {}", path, e)));
        let doc: serde_json::Value = serde_json::from_str(&txt).unwrap_or_else(|e| report::machinery(&format!("bad replay file: {}", e)));
        rep.replaying = true;
        if let Some(s) = doc["seed"].as_u64() {
            rep.seed = s;
        }
        if doc["tier"] == "thorough" {
            rep.tier = Tier::Thorough;
        }
        println!("replaying {} clause={} : {}", path, doc["clause"], doc["what"]);
        let rep: &'static Report = Box::leak(Box::new(rep));
        (c.replay)(rep, &doc["case"]);
        let code = rep.finish();
        println!("replay verdict: {}", if code == 0 { "property holds on this case" } else { "violation reproduced" });
        std::process::exit(code);
    }
    let rep: &'static Report = Box::leak(Box::new(rep));
    (c.run)(rep);
    std::process::exit(rep.finish());
}
