//! C15 — locked private keys: lossless, tamper-evident, documented format (E-GRID vs REF).
use crate::kra;
use crate::refspec as r;
use crate::report::{Report, Tier};
use crate::util::*;
use rayon::prelude::*;
use serde_json::{json, Value};

fn rust_lock(sk: &[u8; 32], pw: &[u8], salt: &[u8; 32]) -> Result<String, String> {
    guarded(|| kra::lock(sk, pw, salt))
}

/// Ok(Some(key)) unlocked, Ok(None) rejected (at string or blob level), Err(panic)
fn rust_unlock(s: &str, pw: &[u8]) -> Result<Option<Vec<u8>>, String> {
    guarded(|| kra::unlock(s, pw))
}

fn lock_case(rep: &Report, sk: &[u8; 32], pwn: &str, pw: &[u8], salt: &[u8; 32]) {
    if !kra::AVAILABLE {
        return; // in-process seam unavailable: the CLI-level parts below decide
    }
    rep.eval(1);
    let case = json!({"kind":"lock","sk":hx(sk),"pw":hx(pw),"salt":hx(salt)});
    let want = r::b64(&r::lock_key(sk, pw, salt));
    match rust_lock(sk, pw, salt) {
        Err(m) => rep.violation("lock/panic", case, format!("lock_private_key panicked: {}", m)),
        Ok(got) => {
            if got != want {
                rep.violation("lock/format-differs", case.clone(), format!("locked string for password '{}' differs from the documented format (version || salt || ChaCha20-Poly1305(scrypt(pw,salt,32768,8,1), nonce 0, aad=version))", pwn));
            }
            match rust_unlock(&got, pw) {
                Ok(Some(k)) if k == sk => {}
                other => rep.violation("lock/roundtrip", case.clone(), format!("unlock(lock(k, '{}')) != k: {:?}", pwn, other.map(|o| o.map(|k| hx(&k))))),
            }
            // conforming implementation -> Rust
            match rust_unlock(&want, pw) {
                Ok(Some(k)) if k == sk => {}
                other => rep.violation("lock/ref-locked-key-rejected", case, format!("a key locked by the reference implementation under '{}' does not unlock to the original key: {:?}", pwn, other.map(|o| o.map(|k| hx(&k))))),
            }
        }
    }
}

fn other_pw_case(rep: &Report, sk: &[u8; 32], wn: &str, w: &[u8], w2n: &str, w2: &[u8], locked: &str) {
    if !kra::AVAILABLE {
        return; // in-process seam unavailable: the CLI-level parts below decide
    }
    rep.eval(1);
    let case = json!({"kind":"other-pw","sk":hx(sk),"wn":wn,"w":hx(w),"w2n":w2n,"w2":hx(w2),"locked":locked});
    match rust_unlock(locked, w2) {
        Err(m) => rep.violation("unlock/panic", case, format!("unlock panicked: {}", m)),
        Ok(None) => {}
        Ok(Some(_)) => {
            let what = format!("key locked under '{}' unlocks under the different password '{}'", wn, w2n);
            if r::hmac_norm(w) == r::hmac_norm(w2) {
                rep.known_or_violation(&format!("lock-pair:{}/{}", wn, w2n), "unlock/other-password-accepted", case, what + " (same HMAC key after RFC 2104 normalisation)");
            } else {
                rep.violation("unlock/other-password-accepted", case, what);
            }
        }
    }
}

fn flip_case(rep: &Report, sk: &[u8; 32], pw: &[u8], blob: &[u8], bit: usize) {
    if !kra::AVAILABLE {
        return; // in-process seam unavailable: the CLI-level parts below decide
    }
    rep.eval(1);
    let mut b = blob.to_vec();
    b[bit / 8] ^= 1 << (bit % 8);
    let s = r::b64(&b);
    match rust_unlock(&s, pw) {
        Ok(None) => {}
        Ok(Some(k)) => rep.violation(
            &format!("tamper/accepted-{}", if bit / 8 < 4 { "version" } else if bit / 8 < 36 { "salt" } else if bit / 8 < 68 { "ciphertext" } else { "tag" }),
            json!({"kind":"flip","sk":hx(sk),"pw":hx(pw),"blob":hx(blob),"bit":bit}),
            format!("locked key with bit {} (byte {}) flipped still unlocks (to {})", bit, bit / 8, if k == sk { "the original key" } else { "another key" }),
        ),
        Err(m) => rep.violation("tamper/panic", json!({"kind":"flip","sk":hx(sk),"pw":hx(pw),"blob":hx(blob),"bit":bit}), format!("panic: {}", m)),
    }
}

fn string_case(rep: &Report, s: &str, pw: &[u8], orig: &str, sk: &[u8; 32]) {
    if !kra::AVAILABLE {
        return; // in-process seam unavailable: the CLI-level parts below decide
    }
    rep.eval(1);
    let case = json!({"kind":"string","s":s,"pw":hx(pw),"orig":orig,"sk":hx(sk)});
    // model: accept iff strict base64 of 84 bytes that REF unlocks
    let want = r::b64_decode(s).and_then(|b| r::unlock_key(&b, pw));
    match rust_unlock(s, pw) {
        Err(m) => rep.violation("string/panic", case, format!("panic on a {}-char key string: {}", s.chars().count(), m)),
        Ok(got) => {
            let stripped: String = s.chars().filter(|c| !c.is_whitespace()).collect();
            let tolerant = if stripped != s { r::b64_decode(&stripped).and_then(|b| r::unlock_key(&b, pw)) } else { None };
            if got.is_some() && want.is_none() && tolerant.map(|k| k.to_vec()) == got {
                // whitespace inside the key text tolerated and decoded to the same key: left open by the statement
            } else if got.is_some() && want.is_none() {
                rep.violation("string/accepted-malformed", case, format!("malformed / altered key string ({} chars) unlocks", s.chars().count()));
            } else if got.is_none() && want.is_some() && s == orig {
                rep.violation("string/rejected-valid", case, "valid key string rejected".into());
            } else if let (Some(g), Some(w)) = (&got, &want) {
                if g[..] != w[..] {
                    rep.violation("string/wrong-key", case, "unlocks to a different key than the reference".into());
                }
            }
        }
    }
}

pub fn run(rep: &'static Report) {
    let seed = rep.seed;
    kra::note(rep);
    rep.set_rule("E-GRID vs REF: keys x passwords x salts (lock bytes == documented format, lock/unlock round trip in both directions between Rust and REF), all ordered password pairs, every single-bit change of the 84-byte blob, every string length 0..130 and every single-character substitution from a class alphabet. distinct non-trivial = distinct (key, password, salt) / (password pair) / (bit) / (string) points");
    rep.rule_add("Password channels: REF-locked keys, 8 passwords with blanks at their ends and their near misses x {environment, controlling terminal, stdin terminal} through key extract-pub.");
    rep.rule_add("CLI: extract-pub pairs over a UTF-8 and a byte-password alphabet, 673 bit flips, change-pass to every word.");
    rep.assume("key/salt values from seed-derived alphabets plus all-zero and all-one keys; one scrypt(32768,8,1) per point bounds the grid");
    let ids = idents(seed);
    let keys: Vec<[u8; 32]> = vec![ids[0].sk, [0xff; 32], [0u8; 32]];
    let w = passwords();
    let salts: Vec<[u8; 32]> = vec![derive32(seed, "c15-salt-0"), {
        let mut s = derive32(seed, "c15-salt-1");
        s[31] = 0;
        s[0] = 0;
        s
    }];
    rep.mute(!kra::AVAILABLE); // in-process grid: counts nothing when the seam is unavailable
    let mut jobs = vec![];
    for (ki, _) in keys.iter().enumerate() {
        for (wi, _) in w.iter().enumerate() {
            for (si, _) in salts.iter().enumerate() {
                if rep.tier == Tier::Quick && ki > 0 && si > 0 {
                    continue;
                }
                jobs.push((ki, wi, si));
            }
        }
    }
    jobs.par_iter().for_each(|&(ki, wi, si)| {
        lock_case(rep, &keys[ki], w[wi].0, &w[wi].1, &salts[si]);
        rep.nontrivial(format!("lock-{}-{}-{}", ki, wi, si).as_bytes());
    });
    rep.sample(json!({"kind":"lock","key":"ff*32 (not clamped)","password":"e-acute-nfd","check":"Rust string == base64(65676b30 || salt || AEAD) from REF; unlock returns the exact 32 bytes"}));

    // all ordered password pairs (one key, one salt)
    let locked: Vec<String> = w.par_iter().map(|(_, pw)| r::b64(&r::lock_key(&keys[0], pw, &salts[0]))).collect();
    let mut pj = vec![];
    for i in 0..w.len() {
        for j in 0..w.len() {
            if i != j {
                pj.push((i, j));
            }
        }
    }
    pj.par_iter().for_each(|&(i, j)| {
        other_pw_case(rep, &keys[0], w[i].0, &w[i].1, w[j].0, &w[j].1, &locked[i]);
        rep.nontrivial(format!("pair-{}-{}", i, j).as_bytes());
    });

    // every single-bit change of the blob
    let nblobs = rep.tier.pick(1, 2);
    for bi in 0..nblobs {
        let pw = if bi == 0 { b"flip pw".to_vec() } else { vec![] };
        let blob = r::lock_key(&keys[bi], &pw, &salts[bi]);
        (0..84 * 8usize).into_par_iter().for_each(|bit| {
            flip_case(rep, &keys[bi], &pw, &blob, bit);
            rep.nontrivial(format!("flip-{}-{}", bi, bit).as_bytes());
        });
    }
    // changes to two bytes of the tag at once, the same mask on both (an opener that folds tag bytes together before
    // comparing refuses every single-bit change and accepts these), through the real unlock; and, one layer down, the
    // AEAD opener under the blob's own scrypt key with every tag at Hamming distance two
    if kra::AVAILABLE {
        let pw = b"flip pw".to_vec();
        let blob = r::lock_key(&keys[0], &pw, &salts[0]);
        let mut pairs = vec![];
        for i in 68..84usize {
            for j in i + 1..84 {
                pairs.push((i, j));
            }
        }
        pairs.par_iter().for_each(|&(i, j)| {
            rep.eval(1);
            rep.nontrivial(format!("flip-pair-{}-{}", i, j).as_bytes());
            let mut b = blob.clone();
            b[i] ^= 0x01;
            b[j] ^= 0x01;
            let case = json!({"kind":"flip-pair","i":i,"j":j});
            match rust_unlock(&r::b64(&b), &pw) {
                Ok(None) => {}
                Ok(Some(_)) => rep.violation("tamper/accepted-tag", case, format!("locked key with the lowest bits of tag bytes {} and {} both flipped still unlocks", i - 68, j - 68)),
                Err(m) => rep.violation("tamper/panic", case, format!("panic: {}", m)),
            }
        });
        let k = r::pass_key(&pw, &salts[0]);
        let tag: [u8; 16] = blob[68..84].try_into().unwrap();
        let vars = crate::c19::tag_variants(&tag);
        let nv = vars.len();
        vars.par_iter().for_each(|(what, t)| {
            rep.eval(1);
            let mut c = blob[36..84].to_vec();
            c[32..].copy_from_slice(t);
            match guarded(|| kestrel_crypto::chapoly_decrypt_ietf(&k, &[0u8; 12], &c, &r::SK_MAGIC).is_ok()) {
                Ok(false) => {}
                Ok(true) => rep.violation("tamper/accepted-tag", json!({"kind":"flip-pair","what":what}), format!("the AEAD opener under the locked key's scrypt key accepts the sealed private key when its {}", what)),
                Err(m) => rep.violation("tamper/panic", json!({"kind":"flip-pair","what":what}), format!("panic: {}", m)),
            }
        });
        rep.nontrivial(b"flip-tag-variants");
        rep.extra("tag_byte_pairs_through_unlock", json!(pairs.len()));
        rep.extra("tag_variants_at_the_aead_layer", json!(nv));
    }
    rep.extra("blob_bit_flips", json!(nblobs * 672));
    rep.sample(json!({"kind":"flip","bit":24,"meaning":"lowest bit of the version byte 0x30","expect":"unlock fails"}));

    // strings: every length, every single-character substitution
    let pw = b"string pw".to_vec();
    let orig = r::b64(&r::lock_key(&keys[0], &pw, &salts[0]));
    let mut strs: Vec<String> = vec![];
    for n in 0..=130usize {
        strs.push("A".repeat(n));
        strs.push(orig.chars().take(n).collect());
        if n <= orig.len() {
            strs.push(orig[orig.len() - n..].to_string());
        }
    }
    strs.push(format!("{}=", orig));
    strs.push(format!("{}AAAA", orig));
    strs.push(format!(" {}", orig));
    strs.push(format!("{}\n", orig));
    strs.push(r::b64_url(&r::b64_decode(&orig).unwrap()));
    let classes: Vec<char> = rep.tier.pick(vec!['A', '=', ' ', '\u{e9}'], vec!['A', '=', '-', '_', ' ', '\0', '\u{e9}', '+', '/', '\n']);
    let oc: Vec<char> = orig.chars().collect();
    for i in 0..oc.len() {
        for &c in &classes {
            if oc[i] != c {
                let mut v = oc.clone();
                v[i] = c;
                strs.push(v.into_iter().collect());
            }
        }
    }
    for i in 0..=oc.len() {
        for c in [' ', '\n', '='] {
            let mut v = oc.clone();
            v.insert(i, c);
            strs.push(v.into_iter().collect());
        }
    }
    strs.push(orig.clone());
    strs.sort();
    strs.dedup();
    strs.par_iter().for_each(|s| {
        string_case(rep, s, &pw, &orig, &keys[0]);
        rep.nontrivial(s.as_bytes());
    });
    rep.extra("key_strings", json!(strs.len()));
    rep.sample(json!({"kind":"string","s":"<valid 112-char string with char 57 replaced by '='>","expect":"rejected, no panic"}));
    rep.mute(false);
    // CLI level: every single-bit change of a locked key is refused by `kestrel key extract-pub`; the pristine string yields the public key
    {
        use crate::proc::{self, Cmd, Scratch};
        let pw = "flip pw";
        let blob = r::lock_key(&keys[0], pw.as_bytes(), &salts[0]);
        let want_pk = r::encode_pk(&r::x25519_base(&keys[0]));
        let bits: Vec<Option<usize>> = std::iter::once(None).chain((0..84 * 8usize).map(Some)).collect();
        bits.par_iter().for_each(|bit| {
            rep.eval(1);
            let mut b = blob.clone();
            if let Some(bit) = bit {
                b[bit / 8] ^= 1 << (bit % 8);
            }
            let s = r::b64(&b);
            let sc = Scratch::new();
            let out = proc::run(&Cmd::new(&["key", "extract-pub", &s, "--env-pass"]).env("KESTREL_PASSWORD", pw), &sc.0);
            rep.nontrivial(format!("cli-flip-{:?}", bit).as_bytes());
            let case = json!({"kind":"cli-flip","locked":s,"pw":pw,"bit":bit});
            if let Err(e) = out.well_behaved() {
                rep.violation("cli/flip-ill-behaved", case, e);
            } else if bit.is_none() {
                if !out.ok() || !String::from_utf8_lossy(&out.stdout).contains(&want_pk) {
                    rep.violation("cli/extract-pub-of-pristine-key", case, format!("kestrel key extract-pub on a REF-locked key does not print its public key: {}", out.summary()));
                }
            } else if out.ok() {
                rep.violation("cli/flipped-locked-key-accepted", case, format!("kestrel key extract-pub accepts a locked key with bit {} changed: {}", bit.unwrap(), out.summary()));
            }
        });
        rep.extra("cli_blob_bit_flips", json!(672));
    }
    // CLI level, through a keyring FILE: a PrivateKey line whose value is a genuine locked key followed by extra
    // characters is a string of another length/alphabet and must not unlock (`encrypt -f` with the right password fails)
    {
        use crate::proc::{self, Cmd, Scratch};
        let pw = "ring pw";
        let locked = r::b64(&r::lock_key(&keys[0], pw.as_bytes(), &salts[0]));
        let pk = r::encode_pk(&r::x25519_base(&keys[0]));
        let suffixes = ["", "=", "==", "=AAAA", "A", "AAAA", "=x=y", "%"];
        suffixes.par_iter().for_each(|suf| {
            rep.eval(1);
            rep.nontrivial(format!("cli-ring-suffix-{}", suf).as_bytes());
            let attempt = || -> Result<(), String> {
                let sc = Scratch::new();
                sc.write("kr.txt", format!("[Key]\nName = me\nPublicKey = {}\nPrivateKey = {}{}\n", pk, locked, suf).as_bytes());
                sc.write("plain.bin", b"x");
                let out = proc::run(&Cmd::new(&["encrypt", "plain.bin", "-t", "me", "-f", "me", "-k", "kr.txt", "-o", "out.ktl", "--env-pass"]).env("KESTREL_PASSWORD", pw), &sc.0);
                out.well_behaved()?;
                if out.ok() != suf.is_empty() {
                    return Err(format!("keyring PrivateKey value = a genuine locked key + {:?}: `kestrel encrypt -f` exit {:?} ({})", suf, out.code, if suf.is_empty() { "the pristine string must unlock" } else { "a string of another length/alphabet must not unlock" }));
                }
                Ok(())
            };
            if attempt().is_err() {
                if let Err(e) = attempt() {
                    rep.violation("cli/keyring-private-key-with-extra-characters", json!({"kind":"cli-bytes","suffix":suf}), e);
                }
            }
        });
    }
    // CLI level, passwords that are not valid UTF-8 (the environment can carry any bytes): the tool may refuse them, but a
    // key locked under one byte string must never be opened under a different one
    {
        use crate::proc::{self, Cmd, Scratch};
        let bw: Vec<(&str, Vec<u8>)> = vec![("ff", vec![0xff]), ("fe", vec![0xfe]), ("ff-fe", vec![0xff, 0xfe]), ("replacement-character", "\u{fffd}".as_bytes().to_vec()), ("two-replacement-characters", "\u{fffd}\u{fffd}".as_bytes().to_vec()), ("a-ff", vec![b'a', 0xff]), ("a-c3", vec![b'a', 0xc3]), ("a", vec![b'a'])];
        let locked: Vec<String> = bw.iter().map(|(_, w)| r::b64(&r::lock_key(&keys[0], w, &salts[0]))).collect();
        let mut jobs = vec![];
        for i in 0..bw.len() {
            for j in 0..bw.len() {
                if i != j {
                    jobs.push((i, j));
                }
            }
        }
        jobs.par_iter().for_each(|&(i, j)| {
            rep.eval(1);
            rep.nontrivial(format!("cli-bytes-{}-{}", i, j).as_bytes());
            let attempt = || -> Result<(), String> {
                let sc = Scratch::new();
                let mut c = Cmd::new(&["key", "extract-pub", &locked[i], "--env-pass"]);
                c.env_bytes.push(("KESTREL_PASSWORD".into(), bw[j].1.clone()));
                let out = proc::run(&c, &sc.0);
                out.well_behaved()?;
                if out.ok() {
                    return Err(format!("CLI: key locked under the bytes {} is opened by KESTREL_PASSWORD = the different bytes {}", hx(&bw[i].1), hx(&bw[j].1)));
                }
                Ok(())
            };
            if attempt().is_err() {
                if let Err(e) = attempt() {
                    rep.violation("cli/other-byte-password-accepted", json!({"kind":"cli-bytes","locked":locked[i],"w":hx(&bw[i].1),"w2":hx(&bw[j].1)}), e);
                }
            }
        });
        rep.extra("cli_byte_password_pairs", json!(jobs.len()));
    }
    // CLI level: a key locked (REF) under w must be opened by `kestrel key extract-pub --env-pass` under w' iff w' == w
    {
        use crate::proc::{self, Cmd, Scratch};
        let w = crate::c02::cli_passwords();
        let sk = keys[0];
        let want_pub = format!("PublicKey = {}", r::encode_pk(&r::x25519_base(&sk)));
        let locked: Vec<String> = w.par_iter().map(|(_, pw)| r::b64(&r::lock_key(&sk, pw.as_bytes(), &salts[0]))).collect();
        let mut jobs = vec![];
        for i in 0..w.len() {
            for j in 0..w.len() {
                jobs.push((i, j));
            }
        }
        jobs.par_iter().for_each(|&(i, j)| {
            rep.eval(1);
            rep.nontrivial(format!("cli-extract-{}-{}", i, j).as_bytes());
            let attempt = || -> Result<(), String> {
                let sc = Scratch::new();
                let out = proc::run(&Cmd::new(&["key", "extract-pub", &locked[i], "--env-pass"]).env("KESTREL_PASSWORD", w[j].1), &sc.0);
                out.well_behaved()?;
                if i == j {
                    if !out.ok() || String::from_utf8_lossy(&out.stdout).trim() != want_pub {
                        return Err(format!("CLI: key locked under '{}' is not opened by the same password: {}", w[i].0, out.summary()));
                    }
                } else if out.ok() {
                    return Err(format!("CLI: key locked under password '{}' is opened by the different password '{}'", w[i].0, w[j].0));
                }
                Ok(())
            };
            if attempt().is_err() {
                if let Err(e) = attempt() {
                    rep.violation(if i == j { "cli/same-password-fails" } else { "cli/other-password-accepted" }, json!({"kind":"cli-extract","locked":locked[i],"wn":w[i].0,"w2n":w[j].0,"w2":w[j].1}), e);
                }
            }
        });
        rep.extra("cli_extract_pub_pairs", json!(jobs.len()));
        let base_locked = r::b64(&r::lock_key(&sk, b"startpw", &salts[0]));
        w.par_iter().for_each(|(wn, newpw)| {
            rep.eval(1);
            rep.nontrivial(format!("cli-change-{}", wn).as_bytes());
            let attempt = || -> Result<(), String> {
                let sc = Scratch::new();
                let out = proc::run(&Cmd::new(&["key", "change-pass", &base_locked, "--env-pass"]).env("KESTREL_PASSWORD", "startpw").env("KESTREL_NEW_PASSWORD", newpw), &sc.0);
                out.well_behaved()?;
                if !out.ok() {
                    return Err(format!("change-pass to '{}' failed: {}", wn, out.summary()));
                }
                let txt = String::from_utf8_lossy(&out.stdout).to_string();
                let locked = txt.lines().find_map(|l| l.trim().strip_prefix("PrivateKey = ")).ok_or("no PrivateKey line")?.trim().to_string();
                let blob = r::b64_decode(&locked).ok_or("not base64")?;
                match r::unlock_key(&blob, newpw.as_bytes()) {
                    Some(k) if k == sk => {}
                    Some(_) => return Err(format!("after change-pass to '{}' the string unlocks to a different key", wn)),
                    None => return Err(format!("after `key change-pass` with the new password '{}' the locked string does not unlock with that password (documented format)", wn)),
                }
                if *newpw != "startpw" && r::unlock_key(&blob, b"startpw").is_some() {
                    return Err(format!("after change-pass to '{}' the old password still unlocks the key", wn));
                }
                Ok(())
            };
            if attempt().is_err() {
                if let Err(e) = attempt() {
                    rep.violation("cli/change-pass", json!({"kind":"cli-change","wn":wn}), e);
                }
            }
        });
        rep.sample(json!({"kind":"cli-extract","locked_under":"a\\n","KESTREL_PASSWORD":"a","expect":"exit 1"}));
    }
    crate::chan::unlock(rep, "C15");
    // "keys locked by any conforming implementation unlock and vice versa": an implementation that derives the locking key
    // through the exported C function gets the documented scrypt(password, salt, 32768, 8, 1) for every password of the
    // alphabet, the empty one included
    {
        let pws: Vec<Vec<u8>> = passwords().into_iter().map(|(_, w)| w).collect();
        crate::c18::ffi_at_lock_parameters(rep, &pws, &salts[0]);
        rep.extra("c_function_at_lock_parameters", json!(pws.len()));
    }
    rep.set_exhaustive(true);
}

pub fn replay(rep: &'static Report, case: &Value) {
    if case["via"] == "ffi" {
        crate::c18::replay(rep, case);
        return;
    }
    if case["kind"] == "chan" {
        println!("  re-running the password-channel part");
        crate::chan::unlock(rep, "C15");
        return;
    }
    let g = |k: &str| unhx(case[k].as_str().unwrap_or(""));
    let a32 = |k: &str| -> [u8; 32] { g(k).try_into().unwrap_or([0; 32]) };
    match case["kind"].as_str().unwrap_or("") {
        "lock" => lock_case(rep, &a32("sk"), "replay", &g("pw"), &a32("salt")),
        "other-pw" => other_pw_case(rep, &a32("sk"), case["wn"].as_str().unwrap(), &g("w"), case["w2n"].as_str().unwrap(), &g("w2"), case["locked"].as_str().unwrap()),
        "flip-pair" => {
            println!("  re-running C15 (paired tag changes are part of it)");
            run(rep);
        }
        "flip" => flip_case(rep, &a32("sk"), &g("pw"), &g("blob"), case["bit"].as_u64().unwrap() as usize),
        "string" => string_case(rep, case["s"].as_str().unwrap(), &g("pw"), case["orig"].as_str().unwrap(), &a32("sk")),
        "cli-bytes" => {
            println!("  re-running C15");
            run(rep);
        }
        "cli-flip" => {
            let sc = crate::proc::Scratch::new();
            let out = crate::proc::run(&crate::proc::Cmd::new(&["key", "extract-pub", case["locked"].as_str().unwrap(), "--env-pass"]).env("KESTREL_PASSWORD", case["pw"].as_str().unwrap()), &sc.0);
            println!("  observed: {}", out.summary());
            if out.ok() != case["bit"].is_null() {
                rep.violation("cli/replay", case.clone(), out.summary());
            }
        }
        "cli-change" => {
            println!("  re-running C15");
            run(rep);
        }
        "cli-extract" => {
            let sc = crate::proc::Scratch::new();
            let out = crate::proc::run(&crate::proc::Cmd::new(&["key", "extract-pub", case["locked"].as_str().unwrap(), "--env-pass"]).env("KESTREL_PASSWORD", case["w2"].as_str().unwrap()), &sc.0);
            println!("  observed: {}", out.summary());
            if out.ok() != (case["wn"] == case["w2n"]) {
                rep.violation("cli/replay", case.clone(), out.summary());
            }
        }
        k => crate::report::machinery(&format!("unknown replay kind {}", k)),
    }
}
