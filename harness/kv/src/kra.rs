//! The only place where the CLI crate's internal modules (src/cli/src/keyring.rs, errors.rs) are touched in-process.
//! They are `pub(crate)` internals of the CLI, not a stable interface: if a change to /repo alters their signatures,
//! kv no longer compiles with the `inproc` feature and `./check` rebuilds it without (AVAILABLE = false); every check
//! then skips its in-process keyring parts, says so in its evidence, and decides on its CLI-level parts alone.
#![allow(dead_code)]

pub const AVAILABLE: bool = cfg!(feature = "inproc");

#[derive(Clone, Debug, PartialEq, Eq)]
pub struct KEntry {
    pub name: String,
    pub pk: String,
    pub sk: Option<String>,
}

#[cfg(feature = "inproc")]
mod imp {
    use super::KEntry;
    use crate::keyring::{EncodedPk, EncodedSk, Keyring};
    use crate::util::privkey;

    pub struct Kr(Keyring);

    pub fn parse(text: &str) -> Result<Kr, String> {
        Keyring::new(text).map(Kr).map_err(|e| e.to_string())
    }

    impl Kr {
        pub fn get_key(&self, name: &str) -> Option<KEntry> {
            self.0.get_key(name).map(|k| KEntry { name: k.name.clone(), pk: k.public_key.as_str().to_string(), sk: k.private_key.as_ref().map(|s| s.as_str().to_string()) })
        }
        /// lookup by encoded public key; None also when the string is not even a syntactically valid encoded key
        pub fn name_from_pk(&self, pk: &str) -> Option<String> {
            match EncodedPk::try_from(pk) {
                Ok(e) => self.0.get_name_from_key(&e),
                Err(_) => None,
            }
        }
    }

    pub fn pk_syntax_ok(s: &str) -> bool {
        EncodedPk::try_from(s).is_ok()
    }
    pub fn decode_pk(s: &str) -> Option<Vec<u8>> {
        match EncodedPk::try_from(s) {
            Ok(e) => Keyring::decode_public_key(&e).ok().map(|k| k.as_bytes().to_vec()),
            Err(_) => None,
        }
    }
    pub fn sk_syntax_ok(s: &str) -> bool {
        EncodedSk::try_from(s).is_ok()
    }
    pub fn unlock(s: &str, pw: &[u8]) -> Option<Vec<u8>> {
        match EncodedSk::try_from(s) {
            Ok(e) => Keyring::unlock_private_key(&e, pw).ok().map(|k| k.as_bytes().to_vec()),
            Err(_) => None,
        }
    }
    pub fn lock(sk: &[u8; 32], pw: &[u8], salt: &[u8; 32]) -> String {
        Keyring::lock_private_key(&privkey(sk), pw, *salt).as_str().to_string()
    }
    pub fn valid_key_name(name: &str) -> bool {
        Keyring::valid_key_name(name)
    }
    /// panics (unwrap) when pk / sk are not syntactically valid encoded keys: call under `guarded`
    pub fn serialize_key(name: &str, pk: &str, sk: &str) -> String {
        Keyring::serialize_key(name, &EncodedPk::try_from(pk).unwrap(), &EncodedSk::try_from(sk).unwrap())
    }
}

#[cfg(not(feature = "inproc"))]
mod imp {
    use super::KEntry;
    pub struct Kr;
    pub fn parse(_text: &str) -> Result<Kr, String> {
        Err("in-process keyring seam unavailable".into())
    }
    impl Kr {
        pub fn get_key(&self, _name: &str) -> Option<KEntry> {
            None
        }
        pub fn name_from_pk(&self, _pk: &str) -> Option<String> {
            None
        }
    }
    pub fn pk_syntax_ok(_s: &str) -> bool {
        false
    }
    pub fn decode_pk(_s: &str) -> Option<Vec<u8>> {
        None
    }
    pub fn sk_syntax_ok(_s: &str) -> bool {
        false
    }
    pub fn unlock(_s: &str, _pw: &[u8]) -> Option<Vec<u8>> {
        None
    }
    pub fn lock(_sk: &[u8; 32], _pw: &[u8], _salt: &[u8; 32]) -> String {
        String::new()
    }
    pub fn valid_key_name(_name: &str) -> bool {
        true
    }
    pub fn serialize_key(_name: &str, _pk: &str, _sk: &str) -> String {
        String::new()
    }
}

pub use imp::*;

/// Recorded in the evidence of every check that has in-process keyring parts.
pub fn note(rep: &crate::report::Report) {
    if !AVAILABLE {
        rep.assume("the in-process seam into src/cli/src/keyring.rs was NOT available in this run (its internal API no longer matches the harness adapter): in-process keyring parts were skipped, the verdict rests on the CLI-level parts");
        println!("  NOTE: in-process keyring seam unavailable; CLI-level parts only");
    }
}
