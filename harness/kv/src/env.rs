//! E-ENV — deviation-bounded exhaustive explorer of environment answers (stateless).
//!
//! A choice tape drives a scripted Read and a scripted Write. Every call to read/write/flush
//! is a choice point; alternative 0 is the default answer. `explore` enumerates every tape
//! within the per-class deviation budgets (CHESS-style iterative bounding with "preemption"
//! replaced by "departure from the default answer").
#![allow(dead_code)]

use serde::{Deserialize, Serialize};
use std::cell::RefCell;
use std::io::{Error, ErrorKind, Read, Write};
use std::rc::Rc;

#[derive(Clone, Copy, PartialEq, Eq, Debug, Serialize, Deserialize)]
pub enum Ans {
    /// read: n bytes returned / write: n bytes accepted / flush: Ok
    N(usize),
    /// Err(ErrorKind::Interrupted)
    Intr,
    /// Err(ErrorKind::Other)
    Fail,
}

#[derive(Clone, Copy, PartialEq, Eq, Debug)]
pub enum Class {
    Default,
    ShortRead,
    ShortWrite,
    Fault,
}

#[derive(Clone, Copy, PartialEq, Eq, Debug, Serialize, Deserialize)]
pub enum PKind {
    Read,
    Write,
    Flush,
}

#[derive(Clone, Copy, PartialEq, Eq, Debug, Serialize, Deserialize)]
pub enum ReadMode {
    /// only the default (fill the buffer)
    Full,
    /// {1, avail-1, ceil(avail/2)}
    Bounded,
    /// every n in avail-1 ..= 1
    Exhaustive,
}

#[derive(Clone, Copy, Debug, Serialize, Deserialize)]
pub struct Menu {
    pub read_mode: ReadMode,
    pub short_writes: bool,
    pub read_fail: bool,
    pub read_intr: bool,
    pub write_fail: bool,
    pub write_zero: bool,
    pub write_intr: bool,
    pub flush_fail: bool,
    pub flush_intr: bool,
    /// keep a copy of every offered write buffer in the log
    pub record: bool,
}

impl Menu {
    pub fn none() -> Menu {
        Menu {
            read_mode: ReadMode::Full,
            short_writes: false,
            read_fail: false,
            read_intr: false,
            write_fail: false,
            write_zero: false,
            write_intr: false,
            flush_fail: false,
            flush_intr: false,
            record: true,
        }
    }
    pub fn no_record(mut self) -> Menu {
        self.record = false;
        self
    }
    pub fn shorts(read_mode: ReadMode, short_writes: bool) -> Menu {
        Menu { read_mode, short_writes, ..Menu::none() }
    }
    pub fn with_all_faults(mut self) -> Menu {
        self.read_fail = true;
        self.read_intr = true;
        self.write_fail = true;
        self.write_zero = true;
        self.write_intr = true;
        self.flush_fail = true;
        self.flush_intr = true;
        self
    }
}

#[derive(Clone, Debug)]
pub struct Point {
    pub kind: PKind,
    pub alts: Vec<(Ans, Class)>,
    pub chosen: usize,
}

#[derive(Clone, Debug)]
pub enum Ev {
    Read { req: usize, ans: Ans, pos_after: usize },
    Write { offered: Vec<u8>, offered_len: usize, ans: Ans, src_pos: usize, sink_len_after: usize },
    Flush { ans: Ans, src_pos: usize, sink_len: usize },
}

pub struct Env {
    pub menu: Menu,
    prefix: Vec<u16>,
    pub points: Vec<Point>,
    pub log: Vec<Ev>,
    pub src: Vec<u8>,
    pub src_pos: usize,
    pub sink: Vec<u8>,
    last_read_intr: bool,
    last_write_intr: bool,
    pub record_offered: bool,
    /// set when the prefix asked for an alternative that does not exist (replay divergence)
    pub diverged: bool,
    /// first hard fault injected (index into log)
    pub first_fault: Option<(PKind, Ans)>,
}

impl Env {
    /// true when bytes were accepted by a write call and no flush call answered Ok after it: a sink that commits on flush
    /// (BufWriter, LineWriter, a transactional store) would not hold them yet
    /// true when bytes were accepted by a write call and flush was not even CALLED after it (whatever the sink answered)
    pub fn never_flushed_tail(&self) -> bool {
        let mut pending = false;
        for ev in &self.log {
            match ev {
                Ev::Write { ans: Ans::N(n), .. } if *n > 0 => pending = true,
                Ev::Flush { .. } => pending = false,
                _ => {}
            }
        }
        pending
    }
    pub fn unflushed(&self) -> bool {
        let mut pending = false;
        for ev in &self.log {
            match ev {
                Ev::Write { ans: Ans::N(n), .. } if *n > 0 => pending = true,
                Ev::Flush { ans: Ans::N(_), .. } => pending = false,
                _ => {}
            }
        }
        pending
    }

    pub fn new(src: Vec<u8>, menu: Menu, prefix: &[u16]) -> Env {
        Env {
            menu,
            prefix: prefix.to_vec(),
            points: vec![],
            log: vec![],
            src,
            src_pos: 0,
            sink: vec![],
            last_read_intr: false,
            last_write_intr: false,
            record_offered: menu.record,
            diverged: false,
            first_fault: None,
        }
    }

    fn choose(&mut self, kind: PKind, alts: Vec<(Ans, Class)>) -> Ans {
        let i = self.points.len();
        let mut c = if i < self.prefix.len() { self.prefix[i] as usize } else { 0 };
        if c >= alts.len() {
            self.diverged = true;
            c = 0;
        }
        let a = alts[c].0;
        if alts[c].1 == Class::Fault && self.first_fault.is_none() {
            self.first_fault = Some((kind, a));
        }
        self.points.push(Point { kind, alts, chosen: c });
        a
    }

    pub fn choices(&self) -> Vec<u16> {
        self.points.iter().map(|p| p.chosen as u16).collect()
    }

    /// number of non-default answers taken, per class
    pub fn deviations(&self) -> (u32, u32, u32) {
        let mut d = (0, 0, 0);
        for p in &self.points {
            match p.alts[p.chosen].1 {
                Class::ShortRead => d.0 += 1,
                Class::ShortWrite => d.1 += 1,
                Class::Fault => d.2 += 1,
                Class::Default => {}
            }
        }
        d
    }

    fn do_read(&mut self, buf: &mut [u8]) -> std::io::Result<usize> {
        let avail = buf.len().min(self.src.len() - self.src_pos);
        let mut alts = vec![(Ans::N(avail), Class::Default)];
        if avail > 1 {
            match self.menu.read_mode {
                ReadMode::Full => {}
                ReadMode::Bounded => {
                    let mut c = vec![1, avail - 1, (avail + 1) / 2];
                    c.dedup();
                    let mut seen = vec![];
                    for n in c {
                        if n >= 1 && n < avail && !seen.contains(&n) {
                            seen.push(n);
                            alts.push((Ans::N(n), Class::ShortRead));
                        }
                    }
                }
                ReadMode::Exhaustive => {
                    for n in (1..avail).rev() {
                        alts.push((Ans::N(n), Class::ShortRead));
                    }
                }
            }
        }
        if self.menu.read_intr && !self.last_read_intr {
            alts.push((Ans::Intr, Class::Fault));
        }
        if self.menu.read_fail {
            alts.push((Ans::Fail, Class::Fault));
        }
        let a = self.choose(PKind::Read, alts);
        self.last_read_intr = a == Ans::Intr;
        let res = match a {
            Ans::N(n) => {
                buf[..n].copy_from_slice(&self.src[self.src_pos..self.src_pos + n]);
                self.src_pos += n;
                Ok(n)
            }
            Ans::Intr => Err(Error::new(ErrorKind::Interrupted, "injected EINTR")),
            Ans::Fail => Err(Error::new(ErrorKind::Other, "injected read failure")),
        };
        self.log.push(Ev::Read { req: buf.len(), ans: a, pos_after: self.src_pos });
        res
    }

    fn do_write(&mut self, buf: &[u8]) -> std::io::Result<usize> {
        let len = buf.len();
        let mut alts = vec![(Ans::N(len), Class::Default)];
        if self.menu.short_writes && len > 1 {
            alts.push((Ans::N(1), Class::ShortWrite));
            if len - 1 > 1 {
                alts.push((Ans::N(len - 1), Class::ShortWrite));
            }
        }
        if len > 0 && self.menu.write_zero {
            alts.push((Ans::N(0), Class::Fault));
        }
        if self.menu.write_intr && !self.last_write_intr {
            alts.push((Ans::Intr, Class::Fault));
        }
        if self.menu.write_fail {
            alts.push((Ans::Fail, Class::Fault));
        }
        let a = self.choose(PKind::Write, alts);
        self.last_write_intr = a == Ans::Intr;
        let res = match a {
            Ans::N(n) => {
                self.sink.extend_from_slice(&buf[..n]);
                Ok(n)
            }
            Ans::Intr => Err(Error::new(ErrorKind::Interrupted, "injected EINTR")),
            Ans::Fail => Err(Error::new(ErrorKind::Other, "injected write failure")),
        };
        self.log.push(Ev::Write {
            offered: if self.record_offered { buf.to_vec() } else { vec![] },
            offered_len: len,
            ans: a,
            src_pos: self.src_pos,
            sink_len_after: self.sink.len(),
        });
        res
    }

    fn do_flush(&mut self) -> std::io::Result<()> {
        let mut alts = vec![(Ans::N(0), Class::Default)];
        if self.menu.flush_intr {
            alts.push((Ans::Intr, Class::Fault));
        }
        if self.menu.flush_fail {
            alts.push((Ans::Fail, Class::Fault));
        }
        let a = self.choose(PKind::Flush, alts);
        self.log.push(Ev::Flush { ans: a, src_pos: self.src_pos, sink_len: self.sink.len() });
        match a {
            Ans::N(_) => Ok(()),
            Ans::Intr => Err(Error::new(ErrorKind::Interrupted, "injected EINTR")),
            Ans::Fail => Err(Error::new(ErrorKind::Other, "injected flush failure")),
        }
    }
}

pub type EnvRef = Rc<RefCell<Env>>;

pub struct Src(pub EnvRef);
pub struct Sink(pub EnvRef);

impl Read for Src {
    fn read(&mut self, buf: &mut [u8]) -> std::io::Result<usize> {
        self.0.borrow_mut().do_read(buf)
    }
}
impl Write for Sink {
    fn write(&mut self, buf: &[u8]) -> std::io::Result<usize> {
        self.0.borrow_mut().do_write(buf)
    }
    fn flush(&mut self) -> std::io::Result<()> {
        self.0.borrow_mut().do_flush()
    }
}

#[derive(Clone, Copy, Debug)]
pub struct Budget {
    pub short_reads: u32,
    pub short_writes: u32,
    pub faults: u32,
    /// total cap on short reads + short writes (u32::MAX = none)
    pub shorts_total: u32,
}

impl Budget {
    pub const UNLIMITED: u32 = u32::MAX;
    pub fn new(short_reads: u32, short_writes: u32, faults: u32) -> Budget {
        Budget { short_reads, short_writes, faults, shorts_total: u32::MAX }
    }
}

pub struct Stats {
    pub executions: u64,
    pub max_points: usize,
    pub max_deviations: u32,
}

struct Shared<'a, R> {
    src: &'a [u8],
    menu: Menu,
    budget: Budget,
    run: &'a (dyn Fn(&EnvRef) -> R + Sync),
    visit: &'a (dyn Fn(&Env, &R) + Sync),
    executions: std::sync::atomic::AtomicU64,
    max_points: std::sync::atomic::AtomicUsize,
    max_dev: std::sync::atomic::AtomicU32,
    error: std::sync::Mutex<Option<String>>,
}

/// executions whose replayed prefix did not fit (see `step`)
pub static DIVERGENCES: std::sync::atomic::AtomicU64 = std::sync::atomic::AtomicU64::new(0);

/// one execution on `prefix`; returns the child prefixes (one more deviation after the prefix)
fn step<R>(sh: &Shared<R>, prefix: &[u16]) -> Vec<Vec<u16>> {
    use std::sync::atomic::Ordering::Relaxed;
    let env = Rc::new(RefCell::new(Env::new(sh.src.to_vec(), sh.menu, prefix)));
    let r = (sh.run)(&env);
    let env = match Rc::try_unwrap(env) {
        Ok(e) => e.into_inner(),
        Err(_) => {
            *sh.error.lock().unwrap() = Some("env still shared after run".into());
            return vec![];
        }
    };
    if env.diverged || env.points.len() < prefix.len() {
        // The subject did not repeat, under identical environment answers, the call sequence it showed before: its
        // behaviour depends on state outside the environment (possible only for code that keeps state between calls —
        // the pinned tree does not). The execution is still a complete one under the answers actually given, so the
        // oracle judges it; the divergence is counted and, if no oracle violation explains it, ends the run as a
        // machinery error in Report::finish (never silently ignored).
        DIVERGENCES.fetch_add(1, Relaxed);
        sh.executions.fetch_add(1, Relaxed);
        (sh.visit)(&env, &r);
        return vec![];
    }
    sh.executions.fetch_add(1, Relaxed);
    sh.max_points.fetch_max(env.points.len(), Relaxed);
    let d = env.deviations();
    sh.max_dev.fetch_max(d.0 + d.1 + d.2, Relaxed);
    (sh.visit)(&env, &r);
    let budget = sh.budget;
    let mut children = vec![];
    let mut used = (0u32, 0u32, 0u32);
    for (i, p) in env.points.iter().enumerate() {
        if i >= prefix.len() {
            for alt in 1..p.alts.len() {
                let ok = match p.alts[alt].1 {
                    Class::ShortRead => used.0 < budget.short_reads && used.0 + used.1 < budget.shorts_total,
                    Class::ShortWrite => used.1 < budget.short_writes && used.0 + used.1 < budget.shorts_total,
                    Class::Fault => used.2 < budget.faults,
                    Class::Default => false,
                };
                if ok {
                    let mut child: Vec<u16> = env.points[..i].iter().map(|q| q.chosen as u16).collect();
                    child.push(alt as u16);
                    children.push(child);
                }
            }
        }
        match p.alts[p.chosen].1 {
            Class::ShortRead => used.0 += 1,
            Class::ShortWrite => used.1 += 1,
            Class::Fault => used.2 += 1,
            Class::Default => {}
        }
    }
    children
}

fn go<R: Send>(sh: &Shared<R>, prefix: Vec<u16>, depth: u32) {
    use rayon::prelude::*;
    if depth < 2 {
        let children = step(sh, &prefix);
        children.into_par_iter().for_each(|c| go(sh, c, depth + 1));
    } else {
        let mut stack = vec![prefix];
        while let Some(p) = stack.pop() {
            stack.extend(step(sh, &p));
        }
    }
}

/// Enumerate every tape within `budget`. `run` executes the subject once on a fresh Env
/// (built from `src`, `menu` and the tape prefix) and returns its result; `visit` is the oracle
/// for that one complete execution. Subtrees are explored in parallel (rayon). Returns Err on
/// replay divergence (machinery error).
pub fn explore<R: Send>(
    src: &[u8],
    menu: Menu,
    budget: Budget,
    run: &(dyn Fn(&EnvRef) -> R + Sync),
    visit: &(dyn Fn(&Env, &R) + Sync),
) -> Result<Stats, String> {
    use std::sync::atomic::Ordering::Relaxed;
    let sh = Shared {
        src,
        menu,
        budget,
        run,
        visit,
        executions: Default::default(),
        max_points: Default::default(),
        max_dev: Default::default(),
        error: std::sync::Mutex::new(None),
    };
    go(&sh, vec![], 0);
    if let Some(e) = sh.error.lock().unwrap().take() {
        return Err(e);
    }
    Ok(Stats { executions: sh.executions.load(Relaxed), max_points: sh.max_points.load(Relaxed), max_deviations: sh.max_dev.load(Relaxed) })
}

/// Run once on a given tape (replay).
pub fn run_tape<R>(src: &[u8], menu: Menu, tape: &[u16], run: &dyn Fn(&EnvRef) -> R) -> (Env, R) {
    let env = Rc::new(RefCell::new(Env::new(src.to_vec(), menu, tape)));
    let r = run(&env);
    let env = Rc::try_unwrap(env).ok().expect("env shared").into_inner();
    (env, r)
}

// ------------------------------------------------------------------ simple scripted objects (no exploration)

/// Reader that hands out `sizes[i]` bytes on call i (clamped), then fills the buffer.
pub struct SchedReader<'a> {
    pub data: &'a [u8],
    pub pos: usize,
    pub sizes: Vec<usize>,
    pub idx: usize,
    pub calls: usize,
}

impl<'a> SchedReader<'a> {
    pub fn new(data: &'a [u8], sizes: &[usize]) -> Self {
        SchedReader { data, pos: 0, sizes: sizes.to_vec(), idx: 0, calls: 0 }
    }
}

impl<'a> Read for SchedReader<'a> {
    fn read(&mut self, buf: &mut [u8]) -> std::io::Result<usize> {
        self.calls += 1;
        let avail = buf.len().min(self.data.len() - self.pos);
        let n = if self.idx < self.sizes.len() { self.sizes[self.idx].min(avail) } else { avail };
        self.idx += 1;
        buf[..n].copy_from_slice(&self.data[self.pos..self.pos + n]);
        self.pos += n;
        Ok(n)
    }
}

/// Sink recording every write call together with the source position at that moment.
pub struct RecSink {
    pub data: Vec<u8>,
    pub writes: Vec<(usize, usize, usize)>, // (sink offset before, len, src pos)
    pub src_pos: Rc<std::cell::Cell<usize>>,
    pub flushes: usize,
}

impl RecSink {
    pub fn new(src_pos: Rc<std::cell::Cell<usize>>) -> Self {
        RecSink { data: vec![], writes: vec![], src_pos, flushes: 0 }
    }
}

impl Write for RecSink {
    fn write(&mut self, buf: &[u8]) -> std::io::Result<usize> {
        self.writes.push((self.data.len(), buf.len(), self.src_pos.get()));
        self.data.extend_from_slice(buf);
        Ok(buf.len())
    }
    fn flush(&mut self) -> std::io::Result<()> {
        self.flushes += 1;
        Ok(())
    }
}

/// Slice reader publishing its position.
pub struct PosReader<'a> {
    pub data: &'a [u8],
    pub pos: usize,
    pub shared: Rc<std::cell::Cell<usize>>,
}

impl<'a> PosReader<'a> {
    pub fn new(data: &'a [u8]) -> (Self, Rc<std::cell::Cell<usize>>) {
        let shared = Rc::new(std::cell::Cell::new(0));
        (PosReader { data, pos: 0, shared: shared.clone() }, shared)
    }
}

impl<'a> Read for PosReader<'a> {
    fn read(&mut self, buf: &mut [u8]) -> std::io::Result<usize> {
        let n = buf.len().min(self.data.len() - self.pos);
        buf[..n].copy_from_slice(&self.data[self.pos..self.pos + n]);
        self.pos += n;
        self.shared.set(self.pos);
        Ok(n)
    }
}
