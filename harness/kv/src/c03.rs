//! C03 — accepted ciphertext => exactly the complete authentic plaintext (E-GRAPH + minted records + production sweep).
use crate::graph::{self, Which};
use crate::refspec as r;
use crate::report::{Report, Tier};
use crate::streams::*;
use crate::util::*;
use rayon::prelude::*;
use serde_json::{json, Value};
use std::sync::atomic::{AtomicU64, Ordering};

const CS: usize = 65536;

/// production-size file E = S->R, cs+1 bytes (two chunks), written by REF
pub fn prod_file(seed: u64) -> (Vec<u8>, Vec<u8>, Ident, Ident) {
    let ids = idents(seed);
    let p = plaintext(seed ^ 0x3e, CS + 1);
    let f = r::write_key_file(&ids[0].sk, &ids[2].pk, &derive32(seed, "c03-E-e"), &derive32(seed, "c03-E-p"), &p, &[CS, 1]).unwrap();
    (f, p, ids[0].clone(), ids[2].clone())
}

pub fn prod_positions(tier: Tier, flen: usize) -> (Vec<usize>, Vec<usize>) {
    // (byte positions whose 8 bits are flipped, truncation offsets)
    match tier {
        Tier::Thorough => ((0..flen).collect(), (0..flen).collect()),
        Tier::Quick => {
            let rec1 = 132;
            let rec2 = 132 + 32 + CS;
            let mut bytes: Vec<usize> = (0..rec1 + 16 + 64).collect(); // header, chunk-1 header, first 64 body bytes
            bytes.extend(rec2 - 16 - 64..flen); // last 64 body bytes + tag of chunk 1, all of chunk 2
            let mut tr: Vec<usize> = (0..rec1 + 16 + 8).collect();
            tr.extend(rec2 - 24..flen);
            for k in 1..64 {
                tr.push(rec1 + 16 + k * 1024);
            }
            (bytes, tr)
        }
    }
}

pub fn prod_case(rep: &Report, sub: &Subject, file: &[u8], p: &[u8], sender: &[u8; 32], kind: &str, at: usize) {
    rep.eval(1);
    let x: Vec<u8> = if kind == "flip" {
        let mut v = file.to_vec();
        v[at / 8] ^= 1 << (at % 8);
        v
    } else {
        file[..at].to_vec()
    };
    // counter fields: bytes 132..140 and (132+32+CS)..+8 are advisory
    let rec2 = 132 + 32 + CS;
    let in_counter = kind == "flip" && ((132..140).contains(&(at / 8)) || (rec2..rec2 + 8).contains(&(at / 8)));
    let (res, out) = run_plain(sub, &x);
    let case = json!({"kind":"prod","edit":kind,"at":at});
    match res {
        Res::Panic(m) => rep.violation("prod/panic", case, format!("panic on {} at {}: {}", kind, at, m)),
        Res::Ok(s) => {
            if !in_counter {
                rep.violation(&format!("prod/accepted-{}", kind), case, format!("production-size file with {} at {} {} accepted ({} bytes out)", kind, if kind == "flip" { "bit" } else { "offset" }, at, out.len()));
            } else if out != p || s.as_deref() != Some(&sender[..]) {
                rep.violation("prod/counter-edit-wrong-output", case, "accepted with wrong output".into());
            }
        }
        Res::Err(..) => {}
    }
}

pub fn run(rep: &'static Report) {
    rep.set_rule("E-GRAPH: breadth-first explicit-state search (stateright) from authentic files over the edit alphabet; in every reachable state the real decryptor is run on the state's bytes and compared with the acceptance model (the property statement), which is itself cross-checked against REF. Plus E-GRID: deviation-bounded words of REF-minted records through the real chunk loop, and (production size) every/selected single-bit flip and truncation of a 2-chunk file. distinct_nontrivial counts unique graph states (byte strings) + minted words");
    rep.assume("forgery resistance of ChaCha20-Poly1305 / X25519 (an edit sequence cannot produce a second valid file other than a corpus file)");
    rep.assume("authentic corpus files are written by REF (independent of the encryptor under test); key/plaintext values from seed-derived alphabets");
    rep.assume("edit sequences longer than the depth bound are not explored");
    graph::run_all_graphs(rep, Which::C03);
    println!("  graphs done at {:.1}s", rep.elapsed());
    crate::minted::run(rep, Which::C03);
    println!("  minted done at {:.1}s", rep.elapsed());
    // production scope
    let (file, p, s, rc) = prod_file(rep.seed);
    let sub = Subject::KeyDec { r: hx(&rc.sk), r_pub: hx(&rc.pk) };
    let (bytes, truncs) = prod_positions(rep.tier, file.len());
    let n = AtomicU64::new(0);
    bytes.par_iter().for_each(|&b| {
        for bit in 0..8 {
            prod_case(rep, &sub, &file, &p, &s.pk, "flip", b * 8 + bit);
            n.fetch_add(1, Ordering::Relaxed);
        }
    });
    truncs.par_iter().for_each(|&t| {
        prod_case(rep, &sub, &file, &p, &s.pk, "trunc", t);
        n.fetch_add(1, Ordering::Relaxed);
    });
    // E2 = exactly two full chunks: every extension must be rejected (the probe for trailing data sees a full buffer)
    {
        let ids = idents(rep.seed);
        let p2 = plaintext(rep.seed ^ 0x3f, 2 * CS);
        let f2 = r::write_key_file(&ids[0].sk, &ids[2].pk, &derive32(rep.seed, "c03-E2-e"), &derive32(rep.seed, "c03-E2-p"), &p2, &[CS, CS]).unwrap();
        let (r0, o0) = run_plain(&sub, &f2);
        rep.eval(1);
        if !r0.is_ok() || o0 != p2 {
            rep.violation("prod/full-final-chunk-rejected", json!({"kind":"prod2","ext":"none"}), format!("authentic file with a full-size final chunk: {}", r0.brief()));
        }
        let last_rec = f2[f2.len() - (32 + CS)..].to_vec();
        let exts: Vec<(&str, Vec<u8>)> = vec![("one-byte", vec![0]), ("16-bytes", vec![0xaa; 16]), ("duplicated-final-record", last_rec), ("whole-file-again", f2.clone()), ("64KiB-of-zeros", vec![0; CS])];
        exts.par_iter().for_each(|(name, ext)| {
            rep.eval(1);
            let mut x = f2.clone();
            x.extend_from_slice(ext);
            let (res, out) = run_plain(&sub, &x);
            if !matches!(res, Res::Err(..)) {
                rep.violation("prod/extension-accepted", json!({"kind":"prod2","ext":name}), format!("file of exactly two full chunks extended by {} : {} ({} bytes out)", name, res.brief(), out.len()));
            }
        });
    }
    rep.extra("production_file_edits", json!({"file_len":file.len(),"bit_flips":bytes.len()*8,"truncations":truncs.len(),"complete": rep.tier == Tier::Thorough}));
    // unique graph states are distinct byte strings by construction; minted words likewise
    rep.add_distinct(rep.states.load(Ordering::Relaxed));
    rep.sample(json!({"graph":"key","init":"A = S->R 'abcdef' as 2+2+2 (234 bytes)","path":["SwapRec(0,1)","SetCounter(0,1)"],"expect":"reject"}));
    rep.sample(json!({"graph":"key","init":"A","path":["Trunc(198)"],"meaning":"truncation exactly at the end of chunk 1","expect":"reject"}));
    rep.sample(json!({"graph":"key","init":"A","path":["HdrField(A2, enc_payload)"],"meaning":"handshake field of another authentic file to the same recipient spliced in","expect":"reject"}));
    rep.set_exhaustive(true);
}

pub fn replay(rep: &'static Report, case: &Value) {
    match case["kind"].as_str().unwrap_or("") {
        "state" => graph::replay_state(rep, Which::C03, case),
        "minted" => crate::minted::replay(rep, Which::C03, case),
        "prod2" => {
            println!("  re-running the production-size part");
            run(rep);
        }
        "prod" => {
            let (file, p, s, rc) = prod_file(rep.seed);
            let sub = Subject::KeyDec { r: hx(&rc.sk), r_pub: hx(&rc.pk) };
            prod_case(rep, &sub, &file, &p, &s.pk, case["edit"].as_str().unwrap(), case["at"].as_u64().unwrap() as usize);
        }
        k => crate::report::machinery(&format!("unknown replay kind {}", k)),
    }
}
