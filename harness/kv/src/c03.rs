//! C03 — accepted ciphertext => exactly the complete authentic plaintext (E-GRAPH + minted records + production sweep).
use crate::graph::{self, Which};
use crate::refspec as r;
use crate::report::{Report, Tier};
use crate::streams::*;
use crate::util::*;
use rayon::prelude::*;
use serde_json::{json, Value};
use std::sync::atomic::{AtomicU64, Ordering};

const CS: usize = 65536;

/// production-size file E = S->R, cs+1 bytes (two chunks), written by REF
pub fn prod_file(seed: u64) -> (Vec<u8>, Vec<u8>, Ident, Ident) {
    let ids = idents(seed);
    let p = plaintext(seed ^ 0x3e, CS + 1);
    let f = r::write_key_file(&ids[0].sk, &ids[2].pk, &derive32(seed, "c03-E-e"), &derive32(seed, "c03-E-p"), &p, &[CS, 1]).unwrap();
    (f, p, ids[0].clone(), ids[2].clone())
}

pub fn prod_positions(tier: Tier, flen: usize) -> (Vec<usize>, Vec<usize>) {
    // (byte positions whose 8 bits are flipped, truncation offsets)
    match tier {
        Tier::Thorough => ((0..flen).collect(), (0..flen).collect()),
        Tier::Quick => {
            let rec1 = 132;
            let rec2 = 132 + 32 + CS;
            let mut bytes: Vec<usize> = (0..rec1 + 16 + 64).collect(); // header, chunk-1 header, first 64 body bytes
            bytes.extend(rec2 - 16 - 64..flen); // last 64 body bytes + tag of chunk 1, all of chunk 2
            let mut tr: Vec<usize> = (0..rec1 + 16 + 8).collect();
            tr.extend(rec2 - 24..flen);
            for k in 1..64 {
                tr.push(rec1 + 16 + k * 1024);
            }
            (bytes, tr)
        }
    }
}

pub fn prod_case(rep: &Report, sub: &Subject, file: &[u8], p: &[u8], sender: &[u8; 32], kind: &str, at: usize) {
    rep.eval(1);
    let x: Vec<u8> = if kind == "flip" {
        let mut v = file.to_vec();
        v[at / 8] ^= 1 << (at % 8);
        v
    } else {
        file[..at].to_vec()
    };
    // counter fields: bytes 132..140 and (132+32+CS)..+8 are advisory
    let rec2 = 132 + 32 + CS;
    let in_counter = kind == "flip" && ((132..140).contains(&(at / 8)) || (rec2..rec2 + 8).contains(&(at / 8)));
    let (res, out) = run_plain(sub, &x);
    let case = json!({"kind":"prod","edit":kind,"at":at});
    match res {
        Res::Panic(m) => rep.violation("prod/panic", case, format!("panic on {} at {}: {}", kind, at, m)),
        Res::Ok(s) => {
            if !in_counter {
                rep.violation(&format!("prod/accepted-{}", kind), case, format!("production-size file with {} at {} {} accepted ({} bytes out)", kind, if kind == "flip" { "bit" } else { "offset" }, at, out.len()));
            } else if out != p || s.as_deref() != Some(&sender[..]) {
                rep.violation("prod/counter-edit-wrong-output", case, "accepted with wrong output".into());
            }
        }
        Res::Err(..) => {}
    }
}

/// (a) The -o file cannot take the last bytes (RLIMIT_FSIZE a little below the plaintext length: 1, 100, 5000, 8192 and
/// 70000 bytes short): "succeeds" is not an option. (b) An extended file F || extra offered through a reader that reports
/// one error at any single read call: the result is never Ok (the error must not be taken for the end of the input).
fn limits_and_faulty_extensions(rep: &Report) {
    use crate::env::*;
    use crate::fx::Party;
    use crate::proc::{self, Cmd, Scratch};
    let seed = rep.seed;
    const CSZ: usize = 65536;
    let alice = Party::new(seed, "alice", "alicepw");
    let bob = Party::new(seed, "bob", "bobpw");
    let kr = crate::fx::keyring(&[(&alice, false), (&bob, true)]);
    let p = plaintext(seed ^ 0x3c1, 2 * CSZ + 9000);
    let kf = r::write_key_file(&alice.sk, &bob.pk, &derive32(seed, "c03-lim-e"), &derive32(seed, "c03-lim-p"), &p, &[CSZ, CSZ, 9000]).unwrap();
    let salt = derive32(seed, "c03-lim-salt");
    let pf = r::write_pass_file_with_key(&r::pass_key(b"filepw", &salt), &salt, &p, &[CSZ, CSZ, 9000]);
    let mut jobs = vec![];
    for mode in ["key", "pass"] {
        for short in [1usize, 100, 5000, 8192, 70_000] {
            jobs.push((mode, short));
        }
    }
    jobs.par_iter().for_each(|&(mode, short)| {
        rep.eval(1);
        rep.nontrivial(format!("c03-fsize-{}-{}", mode, short).as_bytes());
        let attempt = || -> Result<(), String> {
            let sc = Scratch::new();
            sc.write("kr.txt", kr.as_bytes());
            sc.write("in.ktl", if mode == "key" { &kf } else { &pf });
            let args: Vec<&str> = if mode == "key" { vec!["decrypt", "in.ktl", "-t", "bob", "-k", "kr.txt", "-o", "out.bin", "--env-pass"] } else { vec!["password", "decrypt", "in.ktl", "-o", "out.bin", "--env-pass"] };
            let mut c = Cmd::new(&args).env("KESTREL_PASSWORD", if mode == "key" { "bobpw" } else { "filepw" });
            c.fsize_limit = Some((p.len() - short) as u64);
            let o = proc::run(&c, &sc.0);
            o.well_behaved()?;
            let got = sc.read("out.bin").unwrap_or_default();
            if o.ok() {
                return Err(format!("exit status 0 although the output file could take only {} of the {} plaintext bytes (it holds {})", p.len() - short, p.len(), got.len()));
            }
            if !p.starts_with(&got) {
                return Err("what is in the output file is not a prefix of the plaintext".into());
            }
            Ok(())
        };
        if attempt().is_err() {
            if let Err(e) = attempt() {
                rep.violation("cli/size-limited-output", json!({"kind":"limits","mode":mode,"short":short}), format!("kestrel {} decrypt -o under a file size limit {} bytes below the plaintext length: {}", mode, short, e));
            }
        }
    });
    // (b) in-process, tiny scope and production header
    let tkey = derive32(seed, "c03-ext-key");
    let mut items: Vec<(String, Subject, Vec<u8>)> = vec![];
    for (cs, chunking) in [(2u32, vec![2usize, 2, 1]), (3, vec![3, 1]), (2, vec![0])] {
        let pt = plaintext(seed ^ 0x3c2, chunking.iter().sum());
        let f = r::write_chunks(&tkey, &[], &pt, &chunking);
        for extra in [vec![0u8], vec![0u8; 40], f.clone()] {
            items.push((format!("tiny cs={} chunks {:?} + {} extra bytes", cs, chunking, extra.len()), Subject::TinyDec { key: hx(&tkey), aad: String::new(), cs }, [f.clone(), extra].concat()));
        }
    }
    {
        let small = plaintext(seed ^ 0x3c3, 100);
        let f = r::write_key_file(&alice.sk, &bob.pk, &derive32(seed, "c03-ext-e"), &derive32(seed, "c03-ext-p"), &small, &[100]).unwrap();
        items.push(("key-mode file + 1 extra byte".into(), Subject::KeyDec { r: hx(&bob.sk), r_pub: hx(&bob.pk) }, [f.clone(), vec![7u8]].concat()));
        items.push(("key-mode file + 200 extra bytes".into(), Subject::KeyDec { r: hx(&bob.sk), r_pub: hx(&bob.pk) }, [f, vec![7u8; 200]].concat()));
    }
    let execs = std::sync::atomic::AtomicU64::new(0);
    items.par_iter().for_each(|(label, sub, x)| {
        let mut menu = Menu::shorts(ReadMode::Full, false).no_record();
        menu.read_fail = true;
        menu.read_intr = true;
        let st = explore(x, menu, Budget::new(0, 0, 1), &|e| run_env(sub, e), &|env, res| {
            if res.is_ok() {
                let mut c = Case::new(sub, x, menu, env).json(json!({"label":label}));
                c["kind"] = json!("ext-fault");
                rep.violation("extension-accepted-under-a-read-fault", c, format!("{}: accepted (Ok) under the schedule [{}]", label, describe(env)));
            }
        })
        .unwrap_or_else(|e| crate::report::machinery(&e));
        execs.fetch_add(st.executions, std::sync::atomic::Ordering::Relaxed);
        rep.nontrivial(format!("ext-fault-{}", label).as_bytes());
    });
    rep.eval(execs.load(std::sync::atomic::Ordering::Relaxed));
    rep.extra("extended_files_under_read_faults", json!({"inputs":items.len(),"executions":execs.load(std::sync::atomic::Ordering::Relaxed)}));
    // (c) extensions a "text-safe" transfer might add or a tolerant reader might forgive: CR LF, LF, CR, NUL, Ctrl-Z, blank, FF,
    // two of them -- through the CLI, FILE argument and stdin, both modes: never exit 0
    {
        let small = plaintext(seed ^ 0x3c4, 1000);
        let kf1 = r::write_key_file(&alice.sk, &bob.pk, &derive32(seed, "c03-crlf-e"), &derive32(seed, "c03-crlf-p"), &small, &[1000]).unwrap();
        let pf1 = r::write_pass_file_with_key(&r::pass_key(b"filepw", &salt), &salt, &small, &[1000]);
        let tails: Vec<&[u8]> = vec![b"\r\n", b"\n", b"\r", b"\0", b"\x1a", b" ", b"\x0c", b"\r\n\r\n", b"\n\n", b"\0\0", b"\xff"];
        let mut tj = vec![];
        for mode in ["key", "pass"] {
            for (ti, _) in tails.iter().enumerate() {
                for via_stdin in [false, true] {
                    tj.push((mode, ti, via_stdin));
                }
            }
        }
        tj.par_iter().for_each(|&(mode, ti, via_stdin)| {
            rep.eval(1);
            rep.nontrivial(format!("c03-tail-{}-{}-{}", mode, ti, via_stdin).as_bytes());
            let mut f = if mode == "key" { kf1.clone() } else { pf1.clone() };
            f.extend_from_slice(tails[ti]);
            let sc = Scratch::new();
            sc.write("kr.txt", kr.as_bytes());
            sc.write("in.ktl", &f);
            let mut args: Vec<&str> = if mode == "key" { vec!["decrypt", "-t", "bob", "-k", "kr.txt", "-o", "out.bin", "--env-pass"] } else { vec!["password", "decrypt", "-o", "out.bin", "--env-pass"] };
            let mut c;
            if via_stdin {
                c = Cmd::new(&args).stdin(&f);
            } else {
                args.insert(if mode == "key" { 1 } else { 2 }, "in.ktl");
                c = Cmd::new(&args);
            }
            c = c.env("KESTREL_PASSWORD", if mode == "key" { "bobpw" } else { "filepw" });
            let o = proc::run(&c, &sc.0);
            if o.well_behaved().is_ok() && o.ok() {
                rep.violation("cli/extension-accepted", json!({"kind":"limits","mode":mode,"tail":hx(tails[ti]),"stdin":via_stdin}), format!("kestrel {} decrypt accepts (exit 0) an authentic file followed by the bytes {} ({})", mode, hx(tails[ti]), if via_stdin { "on stdin" } else { "FILE argument" }));
            }
        });
        rep.extra("cli_forgivable_tails", json!(tj.len()));
    }
    rep.extra("cli_size_limited_outputs", json!(jobs.len()));
}

pub fn run(rep: &'static Report) {
    rep.set_rule("E-GRAPH: breadth-first explicit-state search (stateright) from authentic files over the edit alphabet; in every reachable state the real decryptor is run on the state's bytes and compared with the acceptance model (the property statement), which is itself cross-checked against REF. Plus E-GRID: deviation-bounded words of REF-minted records through the real chunk loop, and (production size) every/selected single-bit flip and truncation of a 2-chunk file. distinct_nontrivial counts unique graph states (byte strings) + minted words");
    rep.rule_add("Library level: decryption/encryption into sinks of bounded capacity succeed exactly when everything fitted. CLI: the reader of the stdout pipe leaves after 0/1/100/4096/65536 bytes of a 4-chunk plaintext: never exit 0; -o under a size limit 1..70000 bytes below the plaintext length: never exit 0. Extended files under one read fault at any call: never Ok.");
    rep.rule_add("CLI level: 26 authentic/edited files x 3 output wirings x 3 input wirings; E-ENV short-count sinks with <=1 short read and <=2 short writes for every tiny authentic stream and the production file.");
    rep.assume("forgery resistance of ChaCha20-Poly1305 / X25519 (an edit sequence cannot produce a second valid file other than a corpus file)");
    rep.assume("authentic corpus files are written by REF (independent of the encryptor under test); key/plaintext values from seed-derived alphabets");
    rep.assume("edit sequences longer than the depth bound are not explored");
    graph::run_all_graphs(rep, Which::C03);
    println!("  graphs done at {:.1}s", rep.elapsed());
    crate::minted::run(rep, Which::C03);
    println!("  minted done at {:.1}s", rep.elapsed());
    // production scope
    let (file, p, s, rc) = prod_file(rep.seed);
    let sub = Subject::KeyDec { r: hx(&rc.sk), r_pub: hx(&rc.pk) };
    let (bytes, truncs) = prod_positions(rep.tier, file.len());
    let n = AtomicU64::new(0);
    bytes.par_iter().for_each(|&b| {
        for bit in 0..8 {
            prod_case(rep, &sub, &file, &p, &s.pk, "flip", b * 8 + bit);
            n.fetch_add(1, Ordering::Relaxed);
        }
    });
    truncs.par_iter().for_each(|&t| {
        prod_case(rep, &sub, &file, &p, &s.pk, "trunc", t);
        n.fetch_add(1, Ordering::Relaxed);
    });
    // E2 = exactly two full chunks: every extension must be rejected (the probe for trailing data sees a full buffer)
    {
        let ids = idents(rep.seed);
        let p2 = plaintext(rep.seed ^ 0x3f, 2 * CS);
        let f2 = r::write_key_file(&ids[0].sk, &ids[2].pk, &derive32(rep.seed, "c03-E2-e"), &derive32(rep.seed, "c03-E2-p"), &p2, &[CS, CS]).unwrap();
        let (r0, o0) = run_plain(&sub, &f2);
        rep.eval(1);
        if !r0.is_ok() || o0 != p2 {
            rep.violation("prod/full-final-chunk-rejected", json!({"kind":"prod2","ext":"none"}), format!("authentic file with a full-size final chunk: {}", r0.brief()));
        }
        let last_rec = f2[f2.len() - (32 + CS)..].to_vec();
        let exts: Vec<(&str, Vec<u8>)> = vec![("one-byte", vec![0]), ("16-bytes", vec![0xaa; 16]), ("duplicated-final-record", last_rec), ("whole-file-again", f2.clone()), ("64KiB-of-zeros", vec![0; CS])];
        exts.par_iter().for_each(|(name, ext)| {
            rep.eval(1);
            let mut x = f2.clone();
            x.extend_from_slice(ext);
            let (res, out) = run_plain(&sub, &x);
            if !matches!(res, Res::Err(..)) {
                rep.violation("prod/extension-accepted", json!({"kind":"prod2","ext":name}), format!("file of exactly two full chunks extended by {} : {} ({} bytes out)", name, res.brief(), out.len()));
            }
        });
    }
    cli_level(rep);
    short_count_sinks(rep);
    zero_tailed_files(rep);
    rep.extra("production_file_edits", json!({"file_len":file.len(),"bit_flips":bytes.len()*8,"truncations":truncs.len(),"complete": rep.tier == Tier::Thorough}));
    // unique graph states are distinct byte strings by construction; minted words likewise
    rep.add_distinct(rep.states.load(Ordering::Relaxed));
    rep.sample(json!({"graph":"key","init":"A = S->R 'abcdef' as 2+2+2 (234 bytes)","path":["SwapRec(0,1)","SetCounter(0,1)"],"expect":"reject"}));
    rep.sample(json!({"graph":"key","init":"A","path":["Trunc(198)"],"meaning":"truncation exactly at the end of chunk 1","expect":"reject"}));
    rep.sample(json!({"graph":"key","init":"A","path":["HdrField(A2, enc_payload)"],"meaning":"handshake field of another authentic file to the same recipient spliced in","expect":"reject"}));
    crate::c10::bounded_sink_cases(rep, "C03");
    crate::c04::reader_leaves_cases(rep, "C03");
    limits_and_faulty_extensions(rep);
    rep.set_exhaustive(true);
}

/// "Decryption succeeds only with output identical to the complete plaintext" also when the plaintext sink accepts fewer
/// bytes than offered and the source returns fewer than requested: every schedule with <= 1 short read and <= 2 short
/// writes, for every authentic tiny stream (default chunking and 1-byte chunks) and a production file.
fn short_count_sinks(rep: &Report) {
    use crate::env::{explore, Budget, Menu, ReadMode};
    let seed = rep.seed;
    let key = derive32(seed, "c03-sw-key");
    let execs = AtomicU64::new(0);
    let mut items: Vec<(Subject, Vec<u8>, Vec<u8>)> = vec![];
    for cs in [2u32, 3] {
        for l in 0..=(2 * cs as usize + 1) {
            let p = plaintext(seed ^ 0x3d, l);
            let mut chs: Vec<Vec<usize>> = vec![];
            let mut c = vec![];
            let mut rem = l;
            while rem > 0 {
                let n = rem.min(cs as usize);
                c.push(n);
                rem -= n;
            }
            if c.is_empty() {
                c.push(0);
            }
            chs.push(c);
            if l > 1 {
                chs.push(vec![1; l]);
            }
            for ch in chs {
                items.push((Subject::TinyDec { key: hx(&key), aad: String::new(), cs }, r::write_chunks(&key, &[], &p, &ch), p.clone()));
            }
        }
    }
    let (f, p, _s, rc) = prod_file(seed);
    items.push((Subject::KeyDec { r: hx(&rc.sk), r_pub: hx(&rc.pk) }, f, p));
    items.par_iter().for_each(|(sub, ct, p)| {
        let menu = Menu::shorts(ReadMode::Bounded, true).no_record();
        let st = explore(ct, menu, Budget::new(1, 2, 0), &|e| run_env(sub, e), &|env, res| {
            let case = || crate::streams::Case::new(sub, ct, menu, env).json(json!({"what":"short-count-sink"}));
            match res {
                Res::Ok(_) => {
                    if env.sink != *p {
                        rep.violation("short-counts/accepted-with-incomplete-output", case(), format!("decryption returned Ok but delivered {} of {} plaintext bytes to a sink that accepts short counts", env.sink.len(), p.len()));
                    }
                }
                other => rep.violation("short-counts/authentic-rejected", case(), format!("authentic stream rejected under short reads/writes: {}", other.brief())),
            }
        })
        .unwrap_or_else(|e| crate::report::machinery(&e));
        execs.fetch_add(st.executions, Ordering::Relaxed);
        rep.nontrivial(&[b"short-count-", &ct[..ct.len().min(64)]].concat());
    });
    rep.eval(execs.load(Ordering::Relaxed));
    rep.extra("short_count_sink_executions", json!(execs.load(Ordering::Relaxed)));
}

/// Data-dependent prefixes: authentic files whose final bytes are 0x00 (1 in 256 files end in one zero byte, 1 in 65536
/// in two). A reader that pads a short read with stale zero buffer contents would accept such a file with its tail cut
/// off. The corpus is found by varying the plaintext until REF's file ends in the wanted bytes; every proper prefix of
/// each file must be rejected.
fn zero_tailed_files(rep: &Report) {
    let seed = rep.seed;
    let key = derive32(seed, "c03-zt-key");
    let ids = idents(seed);
    let mut found: Vec<(String, Subject, Vec<u8>)> = vec![];
    // tiny scope: one chunk and two chunks, tails 00 and 00 00
    for (nch, tail) in [(1usize, 1usize), (2, 1), (1, 2)] {
        let cs = 4u32;
        let l = if nch == 1 { 3 } else { 6 };
        for k in 0..2_000_000u64 {
            let p = derive(seed ^ (k << 8), "c03-zt-plain", l);
            let ch: Vec<usize> = if nch == 1 { vec![l] } else { vec![4, 2] };
            let f = r::write_chunks(&key, &[], &p, &ch);
            if f[f.len() - tail..].iter().all(|&b| b == 0) {
                found.push((format!("tiny {} chunk(s), last {} byte(s) zero", nch, tail), Subject::TinyDec { key: hx(&key), aad: String::new(), cs }, f));
                break;
            }
        }
    }
    // production scope, key mode: vary the payload key
    for k in 0..100_000u64 {
        let p = plaintext(seed ^ 0x3b, 33);
        let f = r::write_key_file(&ids[0].sk, &ids[2].pk, &derive32(seed, "c03-zt-e"), &derive32(seed ^ k, "c03-zt-pay"), &p, &[33]).unwrap();
        if f[f.len() - 1] == 0 {
            found.push(("key-mode file ending in a zero byte".into(), Subject::KeyDec { r: hx(&ids[2].sk), r_pub: hx(&ids[2].pk) }, f));
            break;
        }
    }
    if found.len() < 4 {
        crate::report::machinery("zero-tailed corpus search did not find its files");
    }
    for (descr, sub, f) in &found {
        (0..f.len()).into_par_iter().for_each(|cut| {
            rep.eval(1);
            let (res, out) = run_plain(sub, &f[..cut]);
            if !matches!(res, Res::Err(..)) {
                rep.violation("zero-tail/prefix-accepted", json!({"kind":"prod2","descr":descr,"cut":cut}), format!("{}: the proper prefix of {} of {} bytes was not rejected: {} ({} bytes out)", descr, cut, f.len(), res.brief(), out.len()));
            }
        });
        rep.nontrivial(descr.as_bytes());
    }
    rep.extra("zero_tailed_files", json!(found.len()));
}

/// `kestrel decrypt` / `password decrypt` on authentic and edited files, to fresh and to pre-existing output paths and to stdout:
/// exit 0 implies the output is exactly the complete original plaintext; edited files exit 1.
fn cli_level(rep: &Report) {
    use crate::fx::Party;
    use crate::proc::{self, Cmd, Scratch};
    let seed = rep.seed;
    let alice = Party::new(seed, "alice", "alicepw");
    let bob = Party::new(seed, "bob", "bobpw");
    let kr = crate::fx::keyring(&[(&alice, false), (&bob, true)]);
    let kr_unknown = crate::fx::keyring(&[(&bob, true)]);
    let p = plaintext(seed ^ 0x3c, CS + 700);
    let f = r::write_key_file(&alice.sk, &bob.pk, &derive32(seed, "c03-cli-e"), &derive32(seed, "c03-cli-p"), &p, &[CS, 700]).unwrap();
    let salt = derive32(seed, "c03-cli-salt");
    let q = r::write_pass_file_with_key(&r::pass_key(b"filepw", &salt), &salt, &p, &[CS, 700]);
    let edits = |file: &[u8], h: usize| -> Vec<(&'static str, Vec<u8>, bool)> {
        let rec2 = h + 32 + CS;
        let flip = |at: usize| {
            let mut v = file.to_vec();
            v[at] ^= 0x80;
            v
        };
        let mut ext = file.to_vec();
        ext.push(0);
        let mut dup = file.to_vec();
        dup.extend_from_slice(&file[rec2..]);
        let mut swapped = file[..h].to_vec();
        swapped.extend_from_slice(&file[rec2..]);
        swapped.extend_from_slice(&file[h..rec2]);
        let mut ctr = file.to_vec();
        ctr[h + 7] ^= 1; // counter field of chunk 0: advisory
        vec![
            ("authentic", file.to_vec(), true),
            ("counter-field-bit", ctr, true),
            ("header-bit", flip(h - 1), false),
            ("magic-bit", flip(3), false),
            ("chunk-1-flag-bit", flip(h + 11), false),
            ("chunk-2-body-bit", flip(rec2 + 20), false),
            ("last-tag-bit", flip(file.len() - 1), false),
            ("prefix-at-chunk-boundary", file[..rec2].to_vec(), false),
            ("prefix-mid-chunk", file[..rec2 + 100].to_vec(), false),
            ("extended", ext, false),
            ("final-record-duplicated", dup, false),
            ("chunks-swapped", swapped, false),
            ("first-chunk-dropped", [file[..h].to_vec(), file[rec2..].to_vec()].concat(), false),
        ]
    };
    // in_kind 0: FILE argument; 1: the file arrives on a stdin pipe; 2: the FILE argument is a named pipe
    let mut jobs: Vec<(String, Vec<u8>, bool, bool, u8, u8)> = vec![];
    // authentic files whose LAST chunk is 64 KiB of zero bytes (a disk image): the output must still be all of P
    let mut pz = plaintext(seed ^ 0x3f, 2 * CS);
    pz[CS..].iter_mut().for_each(|b| *b = 0);
    let fz = r::write_key_file(&alice.sk, &bob.pk, &derive32(seed, "c03-cli-ez"), &derive32(seed, "c03-cli-pz"), &pz, &[CS, CS]).unwrap();
    let qz = r::write_pass_file_with_key(&r::pass_key(b"filepw", &salt), &salt, &pz, &[CS, CS]);
    // an authentic key-mode file decrypted with a keyring that does not contain the sender, to stdout and to -o:
    // what is reported about the unknown key must not end up in the plaintext
    for out_kind in 0..3u8 {
        for in_kind in 0..2u8 {
            jobs.push(("key/authentic-sender-unknown".to_string(), f.clone(), true, true, out_kind, in_kind));
        }
    }
    for (mode, file) in [("key", &fz), ("pass", &qz)] {
        for out_kind in 0..3u8 {
            jobs.push((format!("{}/authentic-zero-final-chunk", mode), file.clone(), true, mode == "key", out_kind, 0));
        }
    }
    for (mode, file, h) in [("key", &f, 132usize), ("pass", &q, 36usize)] {
        for (en, bytes, ok) in edits(file, h) {
            for out_kind in 0..3u8 {
                for in_kind in 0..3u8 {
                    jobs.push((format!("{}/{}", mode, en), bytes.clone(), ok, mode == "key", out_kind, in_kind));
                }
            }
        }
    }
    jobs.par_iter().for_each(|(name, bytes, should_accept, key_mode, out_kind, in_kind)| {
        rep.eval(1);
        rep.nontrivial(format!("cli-{}-{}-{}", name, out_kind, in_kind).as_bytes());
        let attempt = || -> Result<(), String> {
            let sc = Scratch::new();
            let feeder = if *in_kind == 2 { Some(proc::feed_fifo(sc.path("in.ktl"), bytes.clone())?) } else { None };
            if *in_kind == 0 {
                sc.write("in.ktl", bytes);
            }
            sc.write("kr.txt", if name.ends_with("sender-unknown") { kr_unknown.as_bytes() } else { kr.as_bytes() });
            if *out_kind == 1 {
                sc.write("out.bin", &vec![b'Q'; 300_000]);
            }
            let mut a: Vec<&str> = if *key_mode { vec!["decrypt", "-t", "bob", "-k", "kr.txt", "--env-pass"] } else { vec!["password", "decrypt", "--env-pass"] };
            if *in_kind != 1 {
                a.push("in.ktl");
            }
            if *out_kind != 2 {
                a.extend_from_slice(&["-o", "out.bin"]);
            }
            let mut cmd = Cmd::new(&a).env("KESTREL_PASSWORD", if *key_mode { "bobpw" } else { "filepw" });
            if *in_kind == 1 {
                cmd = cmd.stdin(bytes);
            }
            let out = proc::run(&cmd, &sc.0);
            drop(feeder);
            out.well_behaved()?;
            let wname = format!("{}, {}", ["input as FILE argument", "input on a stdin pipe", "FILE argument is a named pipe"][*in_kind as usize], ["-o fresh path", "-o path that held a longer file", "stdout"][*out_kind as usize]);
            if out.ok() {
                let got = if *out_kind == 2 { out.stdout.clone() } else { sc.read("out.bin").unwrap_or_default() };
                if !*should_accept {
                    return Err(format!("{} ({}): an edited file was accepted (exit 0, {} bytes out)", name, wname, got.len()));
                }
                let want: &Vec<u8> = if name.ends_with("zero-final-chunk") { &pz } else { &p };
                if got != *want {
                    return Err(format!("{} ({}): decryption succeeded but the output ({} bytes) is not identical to the complete original plaintext ({} bytes)", name, wname, got.len(), want.len()));
                }
            } else if *should_accept && (name.ends_with("authentic") || name.ends_with("zero-final-chunk") || name.ends_with("sender-unknown")) {
                return Err(format!("{} ({}): authentic file rejected: {}", name, wname, out.summary()));
            }
            Ok(())
        };
        if attempt().is_err() {
            if let Err(e) = attempt() {
                rep.violation(&format!("cli/{}", if e.contains("not identical") { "accepted-with-different-output" } else if e.contains("edited file was accepted") { "edited-file-accepted" } else { "other" }), json!({"kind":"cli","name":name,"out":out_kind,"in":in_kind}), e);
            }
        }
    });
    rep.extra("cli_decrypt_cases", json!(jobs.len()));
}

pub fn replay(rep: &'static Report, case: &Value) {
    if case["kind"] == "limits" {
        limits_and_faulty_extensions(rep);
        return;
    }
    if case["kind"] == "ext-fault" {
        let c = crate::streams::Case::from_json(case).unwrap_or_else(|| crate::report::machinery("bad case"));
        let (env, res) = c.run();
        println!("  observed: {} under [{}]", res.brief(), describe(&env));
        if res.is_ok() {
            rep.violation("extension-accepted-under-a-read-fault", case.clone(), "accepted".into());
        }
        return;
    }
    if case["kind"] == "reader-leaves" {
        crate::c04::reader_leaves_cases(rep, "C03");
        return;
    }
    if case["kind"] == "bounded-sink" {
        crate::c10::bounded_sink_cases(rep, "C03");
        return;
    }
    if case["kind"] == "cli" {
        println!("  re-running the CLI-level part of C03");
        cli_level(rep);
        return;
    }
    if case["what"] == "short-count-sink" {
        println!("  re-running the short-count part of C03");
        short_count_sinks(rep);
        return;
    }
    match case["kind"].as_str().unwrap_or("") {
        "state" => graph::replay_state(rep, Which::C03, case),
        "minted" => crate::minted::replay(rep, Which::C03, case),
        "prod2" => {
            println!("  re-running the production-size part");
            run(rep);
        }
        "prod" => {
            let (file, p, s, rc) = prod_file(rep.seed);
            let sub = Subject::KeyDec { r: hx(&rc.sk), r_pub: hx(&rc.pk) };
            prod_case(rep, &sub, &file, &p, &s.pk, case["edit"].as_str().unwrap(), case["at"].as_u64().unwrap() as usize);
        }
        k => crate::report::machinery(&format!("unknown replay kind {}", k)),
    }
}
