fn main() {
    println!("cargo:rustc-link-lib=dylib=crypto");
}
