//! LD_PRELOAD shim in front of getrandom(2): the harness decides what the OS randomness source answers.
//! KV_RNG_MODE = "count" | "fail-from" | "eintr-at" | "short" | "eagain-at" | "first-hex" (KV_RNG_HEX); KV_RNG_K = k (1-based, calls with len > 0);
//! KV_RNG_LOG = path that receives one byte per call with len > 0 (so the harness learns how many calls a run makes).
//! Also blocks the /dev/urandom and /dev/random fallback when the mode is "fail-from" (open of those paths fails once
//! the k-th call has been reached), so a persistent failure of the source cannot be bypassed silently.
use std::sync::atomic::{AtomicUsize, Ordering};

static CALLS: AtomicUsize = AtomicUsize::new(0);

unsafe fn env(name: &[u8]) -> Option<&'static [u8]> {
    let p = libc::getenv(name.as_ptr() as *const libc::c_char);
    if p.is_null() {
        None
    } else {
        Some(std::ffi::CStr::from_ptr(p).to_bytes())
    }
}

unsafe fn env_num(name: &[u8]) -> usize {
    env(name).and_then(|b| std::str::from_utf8(b).ok()).and_then(|s| s.parse().ok()).unwrap_or(0)
}

unsafe fn set_errno(e: libc::c_int) {
    *libc::__errno_location() = e;
}

#[no_mangle]
pub unsafe extern "C" fn getrandom(buf: *mut libc::c_void, len: libc::size_t, flags: libc::c_uint) -> libc::ssize_t {
    if len == 0 {
        return libc::syscall(libc::SYS_getrandom, buf, len, flags) as libc::ssize_t;
    }
    let n = CALLS.fetch_add(1, Ordering::SeqCst) + 1;
    if let Some(path) = env(b"KV_RNG_LOG\0") {
        let mut p = path.to_vec();
        p.push(0);
        let fd = libc::open(p.as_ptr() as *const libc::c_char, libc::O_WRONLY | libc::O_CREAT | libc::O_APPEND, 0o600);
        if fd >= 0 {
            let b = [b'x'];
            libc::write(fd, b.as_ptr() as *const libc::c_void, 1);
            libc::close(fd);
        }
    }
    let k = env_num(b"KV_RNG_K\0");
    match env(b"KV_RNG_MODE\0").unwrap_or(b"count") {
        b"fail-from" if n >= k => {
            set_errno(libc::EIO);
            -1
        }
        b"eintr-at" if n == k => {
            set_errno(libc::EINTR);
            -1
        }
        b"eagain-at" if n == k => {
            set_errno(libc::EAGAIN);
            -1
        }
        // "first-hex": the k-th call (len > 0) is answered with the bytes of KV_RNG_HEX (cyclically) instead of random ones --
        // the value a generated key takes is an answer of the environment like any other
        b"first-hex" if n == k => {
            let hexs = env(b"KV_RNG_HEX\0").unwrap_or(b"00");
            let nib = |c: u8| -> u8 {
                match c {
                    b'0'..=b'9' => c - b'0',
                    b'a'..=b'f' => c - b'a' + 10,
                    b'A'..=b'F' => c - b'A' + 10,
                    _ => 0,
                }
            };
            let nbytes = (hexs.len() / 2).max(1);
            let out = buf as *mut u8;
            for i in 0..len {
                let j = (i % nbytes) * 2;
                let v = if j + 1 < hexs.len() { (nib(hexs[j]) << 4) | nib(hexs[j + 1]) } else { 0 };
                *out.add(i) = v;
            }
            len as libc::ssize_t
        }
        b"short" => libc::syscall(libc::SYS_getrandom, buf, 1usize, flags) as libc::ssize_t,
        b"short-at" if n == k => libc::syscall(libc::SYS_getrandom, buf, 1usize, flags) as libc::ssize_t,
        _ => libc::syscall(libc::SYS_getrandom, buf, len, flags) as libc::ssize_t,
    }
}

// ---------------------------------------------------------------------------------------------------------------
// Exit-time scan (C20 at process level): with KV_SCAN_HEX = 64 hex digits (several, comma-separated) and KV_SCAN_LOG =
// path, the writable heap mappings of the process ("[heap]" and anonymous rw mappings; not the stacks, not file-backed
// data) are searched for those 32-byte strings when the process calls exit(); one line per hit is appended to the log.

unsafe fn hexval(c: u8) -> Option<u8> {
    match c {
        b'0'..=b'9' => Some(c - b'0'),
        b'a'..=b'f' => Some(c - b'a' + 10),
        b'A'..=b'F' => Some(c - b'A' + 10),
        _ => None,
    }
}

unsafe fn log_line(msg: &[u8]) {
    if let Some(path) = env(b"KV_SCAN_LOG\0") {
        let mut p = [0u8; 512];
        let n = path.len().min(510);
        p[..n].copy_from_slice(&path[..n]);
        let fd = libc::open(p.as_ptr() as *const libc::c_char, libc::O_WRONLY | libc::O_CREAT | libc::O_APPEND, 0o600);
        if fd >= 0 {
            libc::write(fd, msg.as_ptr() as *const libc::c_void, msg.len());
            libc::write(fd, b"\n".as_ptr() as *const libc::c_void, 1);
            libc::close(fd);
        }
    }
}

extern "C" fn scan_at_exit() {
    unsafe {
        let hex = match env(b"KV_SCAN_HEX\0") {
            Some(h) => h,
            None => return,
        };
        // decode up to 4 secrets onto this (stack) frame
        let mut secrets = [[0u8; 32]; 4];
        let mut ns = 0usize;
        for part in hex.split(|&c| c == b',') {
            if part.len() == 64 && ns < 4 {
                let mut ok = true;
                for i in 0..32 {
                    match (hexval(part[2 * i]), hexval(part[2 * i + 1])) {
                        (Some(a), Some(b)) => secrets[ns][i] = a << 4 | b,
                        _ => ok = false,
                    }
                }
                if ok {
                    ns += 1;
                }
            }
        }
        log_line(b"scan-start");
        static mut MAPS: [u8; 1 << 17] = [0; 1 << 17];
        let fd = libc::open(b"/proc/self/maps\0".as_ptr() as *const libc::c_char, libc::O_RDONLY);
        if fd < 0 {
            log_line(b"scan-error maps");
            return;
        }
        let maps = &mut *std::ptr::addr_of_mut!(MAPS);
        let mut len = 0usize;
        loop {
            let n = libc::read(fd, maps.as_mut_ptr().add(len) as *mut libc::c_void, maps.len() - len);
            if n <= 0 {
                break;
            }
            len += n as usize;
            if len == maps.len() {
                break;
            }
        }
        libc::close(fd);
        for line in maps[..len].split(|&c| c == b'\n') {
            // "start-end perms offset dev inode   path"
            let mut f = line.split(|&c| c == b' ').filter(|x| !x.is_empty());
            let (range, perms) = match (f.next(), f.next()) {
                (Some(r), Some(p)) => (r, p),
                _ => continue,
            };
            let _ = (f.next(), f.next(), f.next());
            let path = f.next().unwrap_or(b"");
            if perms.len() < 2 || perms[0] != b'r' || perms[1] != b'w' {
                continue;
            }
            let heapish = path == b"[heap]" || path.is_empty();
            if !heapish {
                continue;
            }
            let mut it = range.split(|&c| c == b'-');
            let parse = |h: &[u8]| -> usize { h.iter().fold(0usize, |a, &c| a << 4 | hexval(c).unwrap_or(0) as usize) };
            let (start, end) = match (it.next(), it.next()) {
                (Some(a), Some(b)) => (parse(a), parse(b)),
                _ => continue,
            };
            // do not scan the buffer holding the maps text itself (static, file-backed .bss is not "heapish" anyway)
            let mem = std::slice::from_raw_parts(start as *const u8, end - start);
            for (si, s) in secrets.iter().take(ns).enumerate() {
                let mut off = 0usize;
                while off + 32 <= mem.len() {
                    match mem[off..].iter().position(|&b| b == s[0]) {
                        None => break,
                        Some(p) => {
                            let at = off + p;
                            if at + 32 <= mem.len() && &mem[at..at + 32] == s {
                                let mut msg = [0u8; 96];
                                let text = b"hit secret=";
                                msg[..text.len()].copy_from_slice(text);
                                msg[text.len()] = b'0' + si as u8;
                                let t2 = if path == b"[heap]" { &b" in=[heap]"[..] } else { &b" in=anonymous-mapping"[..] };
                                msg[text.len() + 1..text.len() + 1 + t2.len()].copy_from_slice(t2);
                                log_line(&msg[..text.len() + 1 + t2.len()]);
                                off = at + 32;
                            } else {
                                off = at + 1;
                            }
                        }
                    }
                }
            }
        }
        log_line(b"scan-done");
    }
}

extern "C" fn shim_init() {
    unsafe {
        if env(b"KV_SCAN_HEX\0").is_some() {
            libc::atexit(scan_at_exit);
        }
    }
}

#[used]
#[link_section = ".init_array"]
static SHIM_INIT: extern "C" fn() = shim_init;
