//! LD_PRELOAD shim in front of getrandom(2): the harness decides what the OS randomness source answers.
//! KV_RNG_MODE = "count" | "fail-from" | "eintr-at" | "short" | "eagain-at"; KV_RNG_K = k (1-based, calls with len > 0);
//! KV_RNG_LOG = path that receives one byte per call with len > 0 (so the harness learns how many calls a run makes).
//! Also blocks the /dev/urandom and /dev/random fallback when the mode is "fail-from" (open of those paths fails once
//! the k-th call has been reached), so a persistent failure of the source cannot be bypassed silently.
use std::sync::atomic::{AtomicUsize, Ordering};

static CALLS: AtomicUsize = AtomicUsize::new(0);

unsafe fn env(name: &[u8]) -> Option<&'static [u8]> {
    let p = libc::getenv(name.as_ptr() as *const libc::c_char);
    if p.is_null() {
        None
    } else {
        Some(std::ffi::CStr::from_ptr(p).to_bytes())
    }
}

unsafe fn env_num(name: &[u8]) -> usize {
    env(name).and_then(|b| std::str::from_utf8(b).ok()).and_then(|s| s.parse().ok()).unwrap_or(0)
}

unsafe fn set_errno(e: libc::c_int) {
    *libc::__errno_location() = e;
}

#[no_mangle]
pub unsafe extern "C" fn getrandom(buf: *mut libc::c_void, len: libc::size_t, flags: libc::c_uint) -> libc::ssize_t {
    if len == 0 {
        return libc::syscall(libc::SYS_getrandom, buf, len, flags) as libc::ssize_t;
    }
    let n = CALLS.fetch_add(1, Ordering::SeqCst) + 1;
    if let Some(path) = env(b"KV_RNG_LOG\0") {
        let mut p = path.to_vec();
        p.push(0);
        let fd = libc::open(p.as_ptr() as *const libc::c_char, libc::O_WRONLY | libc::O_CREAT | libc::O_APPEND, 0o600);
        if fd >= 0 {
            let b = [b'x'];
            libc::write(fd, b.as_ptr() as *const libc::c_void, 1);
            libc::close(fd);
        }
    }
    let k = env_num(b"KV_RNG_K\0");
    match env(b"KV_RNG_MODE\0").unwrap_or(b"count") {
        b"fail-from" if n >= k => {
            set_errno(libc::EIO);
            -1
        }
        b"eintr-at" if n == k => {
            set_errno(libc::EINTR);
            -1
        }
        b"eagain-at" if n == k => {
            set_errno(libc::EAGAIN);
            -1
        }
        b"short" => libc::syscall(libc::SYS_getrandom, buf, 1usize, flags) as libc::ssize_t,
        b"short-at" if n == k => libc::syscall(libc::SYS_getrandom, buf, 1usize, flags) as libc::ssize_t,
        _ => libc::syscall(libc::SYS_getrandom, buf, len, flags) as libc::ssize_t,
    }
}
