#!/bin/bash
# usage: run_all_checks.sh [quick|thorough]  — runs every registered check on the current tree, prints one line each
tier=${1:-quick}
cd /verif
for id in C01 C02 C03 C04 C05 C06 C07 C08 C09 C10 C11 C12 C13 C14 C15 C16 C17 C18 C19 C20; do
  s=$(date +%s)
  out=$(./check $id --tier $tier 2>&1); code=$?
  e=$(date +%s)
  echo "$id exit=$code $((e-s))s :: $(echo "$out" | grep -E "^C[0-9]+ tier" | tail -1)"
  [ $code -ne 0 ] && echo "$out" | grep -E "violated clause|MACHINERY" | head -5
done
